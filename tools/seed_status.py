#!/usr/bin/env python3
"""One line per stored seed: demo, caught_by, suite."""
import glob, json, os
for d in sorted(glob.glob(os.path.join(os.path.dirname(os.path.dirname(os.path.abspath(__file__))), "seeded", "*", ""))):
    m = json.load(open(d + "meta.json")); e = m.get("evaluated", {})
    ch = {c: "".join(str(v["rc"]) for v in tv.values()) for c, tv in e.get("checks", {}).items()}
    print(os.path.basename(d[:-1]), "demo", e.get("demo_on_unchanged_rc"), e.get("demo_with_change_rc"), "caught", e.get("caught_by"),
          "suite", e.get("suite_passes"), (e.get("suite_with_change") or "")[:70].replace("\n", " | "), ch, e.get("error", ""))
