#!/bin/sh
# usage: tools/sweep_all.sh <tier> <seed> [ids...]  -> one line per check (evidence goes to a scratch dir, not to evidence/)
tier=$1; seed=$2; shift 2
ids=${*:-$(ls vf/checks | sed -n 's/^\(C[0-9][0-9]\)\.py$/\1/p')}
for c in $ids; do
  out=$(VERIF_EVIDENCE_DIR=/tmp/ev/sweep_evidence VERIF_SEED=$seed ./check $c --tier $tier 2>&1); rc=$?
  echo "$c seed=$seed tier=$tier rc=$rc $(echo "$out" | grep -E 'sig=|INCONCLUSIVE' | head -2 | cut -c1-300 | tr '\n' ' ')"
done
