#!/bin/sh
# usage: tools/seed_suite.sh <id> <patch.diff>   -> /tmp/ev/<id>.suite (full pinned test suite in a scratch worktree with the change)
id=$1; patch=$2
mkdir -p /tmp/ev
wt=/tmp/ev/wt_$id
git -C /repo worktree add -q --detach $wt HEAD || exit 3
cp /repo/src/bluesky/_version.py $wt/src/bluesky/_version.py
if git -C $wt apply "$patch"; then
  BSL_REPO=$wt /venv/bin/python /verif/tools/baseline_compare.py 10 > /tmp/ev/$id.suite 2>&1
else
  echo "PATCH-DOES-NOT-APPLY" > /tmp/ev/$id.suite
fi
git -C /repo worktree remove --force $wt
