#!/bin/sh
# usage: tools/seed_queue.sh <checks|suite> <registry.tsv>   registry lines: id prop patch demo meta own-checks quick-checks
mode=$1; reg=$2
cd /verif
while read id prop patch demo meta own quick; do
  [ -z "$id" ] && continue
  case "$id" in \#*) continue;; esac
  if [ "$mode" = checks ]; then
    VERIF_JOBS=${VERIF_JOBS:-10} tools/seed_eval.py $id $prop $patch $demo $meta --mode checks --checks $own --quick-checks "$quick" > /tmp/ev/$id.checks.log 2>&1
  else
    tools/seed_eval.py $id $prop $patch $demo $meta --mode suite > /tmp/ev/$id.suite.log 2>&1
  fi
done < $reg
