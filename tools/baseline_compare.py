#!/venv/bin/python
"""Run the repository's pinned test suite with the hook guard OFF (fast: xdist, then re-run of the
port-bound/failed files serially) and compare with /root/.vp/BASELINE.json stable_pass."""
import json, os, signal, subprocess, sys, tempfile, xml.etree.ElementTree as ET

def parse(fn):
    passed, failed = set(), set()
    for tc in ET.parse(fn).getroot().iter("testcase"):
        tid = (tc.get("classname") or "") + "::" + (tc.get("name") or "")
        if tc.find("failure") is not None or tc.find("error") is not None:
            failed.add(tid)
        elif tc.find("skipped") is None:
            passed.add(tid)
    return passed - failed, failed

REPO = os.environ.get("BSL_REPO", "/repo")


def run(args, junit):
    env = dict(os.environ); env.pop("BLUESKY_VERIF", None)
    env["PYTHONPATH"] = os.path.join(REPO, "src")
    cmd = ["/venv/bin/python", "-m", "pytest", "-q", "-p", "no:cacheprovider", "--timeout=900",
           "--continue-on-collection-errors", f"--junitxml={junit}"] + args
    if os.environ.get("BSL_NETNS"):
        # own network namespace: the zmq tests bind fixed ports, so concurrent suite runs would collide otherwise
        cmd = ["unshare", "-n", "sh", "-c", 'ip link set lo up; exec "$@"', "sh"] + cmd
    import time

    proc = subprocess.Popen(cmd, cwd=REPO, env=env, stdout=subprocess.DEVNULL, stderr=subprocess.DEVNULL, start_new_session=True,
                            # a shell's background jobs ignore SIGINT; the suite's SIGINT tests need the default disposition
                            preexec_fn=lambda: signal.signal(signal.SIGINT, signal.SIG_DFL))
    t0 = time.time()
    while True:
        try:
            proc.wait(timeout=10)
            break
        except subprocess.TimeoutExpired:
            pass
        # pytest writes the junit file when the session is over; a process that is still there two minutes later hangs in
        # interpreter shutdown (threads left behind by a failed SIGINT test): the results are complete, end it
        done = os.path.exists(junit) and time.time() - os.path.getmtime(junit) > 120
        if done or time.time() - t0 > 5400:
            try:
                os.killpg(proc.pid, signal.SIGKILL)
            except ProcessLookupError:
                pass
            proc.wait()
            break


base = json.load(open("/root/.vp/BASELINE.json"))
stable = set(base["stable_pass"])
d = tempfile.mkdtemp(prefix="bsl")
j1 = os.path.join(d, "a.xml")
# the SIGINT tests signal their own process, which can take an xdist worker (and the tests queued on it) down: they are
# left to the serial passes below
run(["-n", sys.argv[1] if len(sys.argv) > 1 else "12", "-k", "not sigint"], j1)
p, f = parse(j1)
missing = stable - p
def ids_of(missing):
    return sorted({"src/bluesky/tests/" + m.split("::")[0].split(".")[-1] + ".py::" + m.split("::", 1)[1].split("[")[0]
                   for m in missing if "_vendor" not in m})


# tests missing after the parallel pass (port-bound zmq tests, timing-sensitive SIGINT tests on a loaded machine) get
# up to two serial attempts, by test id
for attempt in range(2):
    if not missing:
        break
    jn = os.path.join(d, f"r{attempt}.xml")
    ids = ids_of(missing)
    if len(ids) > 150:  # something systematic: re-run whole files instead
        ids = sorted({i.split("::")[0] for i in ids})
    run(ids, jn)
    pn, fn_ = parse(jn)
    p |= pn
    missing = stable - p
print(f"stable={len(stable)} passed_now={len(p & stable)} missing={len(missing)}")
for m in sorted(missing)[:40]:
    print("  MISSING", m)
subprocess.run(["rm", "-rf", d])
sys.exit(1 if missing else 0)
