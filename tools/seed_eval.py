#!/venv/bin/python
"""Evaluate one seeded change in a scratch worktree (never touches /repo): confirm its demonstration, run the full
pinned test suite with it, run checks against it, and store it under /verif/seeded/<id>/.

usage: tools/seed_eval.py <seed-id> <property> <patch.diff> <demo.py> <meta.json> [--checks C01,C02] [--tiers quick,thorough]
"""
import argparse, json, os, shutil, subprocess, sys, time

ROOT = os.path.dirname(os.path.dirname(os.path.abspath(__file__)))
ap = argparse.ArgumentParser()
ap.add_argument("seed_id"); ap.add_argument("prop"); ap.add_argument("patch"); ap.add_argument("demo"); ap.add_argument("meta")
ap.add_argument("--checks", default=None); ap.add_argument("--tiers", default="quick,thorough")
ap.add_argument("--no-suite", action="store_true"); ap.add_argument("--quick-checks", default=""); ap.add_argument("--mode", default="both", choices=["both", "checks", "suite"])
a = ap.parse_args()


def sh(cmd, **kw):
    return subprocess.run(cmd, shell=True, capture_output=True, text=True, **kw)


wt = f"/tmp/ev/wt_{a.seed_id}_{a.mode}"
os.makedirs("/tmp/ev", exist_ok=True)
sh(f"git -C /repo worktree remove --force {wt}")
if sh(f"git -C /repo worktree add -q --detach {wt} HEAD").returncode != 0:
    sys.exit("cannot create scratch worktree")
report = {"seed_id": a.seed_id, "property": a.prop, "base_commit": sh("git -C /repo rev-parse --short HEAD").stdout.strip()}
try:
    shutil.copy("/repo/src/bluesky/_version.py", f"{wt}/src/bluesky/_version.py")
    env = f"env -u BLUESKY_VERIF PYTHONPATH={wt}/src"
    r0 = sh(f"cd /tmp && {env} timeout 180 /venv/bin/python {a.demo}")
    report["demo_on_unchanged_rc"] = r0.returncode
    rebased = None
    if sh(f"git -C {wt} apply {a.patch}").returncode != 0:
        # the repository moved on (fix commits near the patched lines): three-way apply, keep the rebased patch
        r3 = sh(f"git -C {wt} apply --3way {a.patch}")
        if r3.returncode != 0 or sh(f"git -C {wt} diff --name-only --diff-filter=U").stdout.strip():
            report["error"] = "patch does not apply to the current tree: " + (r3.stderr or "")[-300:]
            print(json.dumps(report)); sys.exit(2)
        sh(f"git -C {wt} reset -q")
        rebased = sh(f"git -C {wt} diff").stdout
        report["rebased_onto"] = report["base_commit"]
    r1 = sh(f"cd /tmp && {env} timeout 180 /venv/bin/python {a.demo}")
    report["demo_with_change_rc"] = r1.returncode
    report["demo_with_change_tail"] = (r1.stdout + r1.stderr)[-300:]
    caught = {}
    checks = (a.checks.split(",") if a.checks else [a.prop]) if a.mode != "suite" else []
    evd = f"/tmp/ev/evidence_{a.seed_id}"
    qc = [c for c in a.quick_checks.split(",") if c and c not in checks] if a.mode != "suite" else []

    def run_check(c, tier):
        t0 = time.time()
        r = sh(f"cd {ROOT} && VERIF_REPO={wt} VERIF_EVIDENCE_DIR={evd} ./check {c} --tier {tier}")
        sig = next((l.strip() for l in r.stdout.splitlines() if l.strip().startswith("sig=")), "")
        caught.setdefault(c, {})[tier] = {"rc": r.returncode, "first_sig": sig[:300], "wall_s": round(time.time() - t0, 1)}
        return r.returncode == 1

    # lean order: own check(s) quick; only if they miss: neighbours quick; only if those miss too: own check(s) thorough
    hit = False
    for c in checks:
        hit = run_check(c, "quick") or hit
    if not hit:
        for c in qc:
            hit = run_check(c, "quick") or hit
    if not hit and "thorough" in a.tiers.split(","):
        for c in checks:
            hit = run_check(c, "thorough") or hit
    shutil.rmtree(evd, ignore_errors=True)
    if a.mode != "suite":
        report["checks"] = caught
        report["caught_by"] = sorted(c for c, v in caught.items() if any(x["rc"] == 1 for x in v.values()))
    if not a.no_suite and a.mode != "checks":
        t = sh(f"BSL_REPO={wt} /venv/bin/python {ROOT}/tools/baseline_compare.py " + os.environ.get("BSL_N", "8"))
        report["suite_with_change"] = t.stdout.strip()[-600:]
        report["suite_passes"] = t.returncode == 0
finally:
    sh(f"git -C /repo worktree remove --force {wt}")
report["demo_confirmed"] = report.get("demo_on_unchanged_rc") == 0 and report.get("demo_with_change_rc", 0) != 0
d = os.path.join(ROOT, "seeded", a.seed_id)
os.makedirs(d, exist_ok=True)
if rebased:
    open(os.path.join(d, "patch.diff"), "w").write(rebased)
    open(a.patch, "w").write(rebased)   # later evaluations start from the rebased patch
else:
    shutil.copy(a.patch, os.path.join(d, "patch.diff"))
shutil.copy(a.demo, os.path.join(d, "demo.py"))
meta = json.load(open(a.meta))
mp = os.path.join(d, "meta.json")
import fcntl
_lk = open(os.path.join(d, ".lock"), "w"); fcntl.flock(_lk, fcntl.LOCK_EX)
if a.mode != "both" and os.path.exists(mp):  # merge with the other half of the evaluation
    try:
        prev = json.load(open(mp)).get("evaluated", {})
        keep = {k: v for k, v in prev.items() if (k.startswith("suite") if a.mode == "checks" else not k.startswith("suite"))}
        report[f"base_commit_{a.mode}"] = report["base_commit"]
        report = dict(keep, **report)
    except Exception:
        pass
meta.update({"evaluated": report, "what_i_ran": [
    f"scratch worktree of /repo@{report['base_commit']} under /tmp/ev (removed afterwards)",
    f"demo on the unchanged tree: rc={report.get('demo_on_unchanged_rc')}; with the change: rc={report.get('demo_with_change_rc')}",
    f"pinned test suite with the change (tools/baseline_compare.py): {report.get('suite_with_change')}",
    *[f"VERIF_REPO=<worktree> ./check {c} --tier {t}: rc={v['rc']} {v['first_sig'][:160]}" for c, tv in report.get('checks', {}).items() for t, v in tv.items()]]})
json.dump(meta, open(os.path.join(d, "meta.json"), "w"), indent=1)
print(json.dumps({k: v for k, v in report.items() if k != "demo_with_change_tail"}, indent=1)[:1800])
