#!/venv/bin/python
"""Re-run named tests of the pinned suite against a stored seeded change (scratch worktree) and fold the result into
seeded/<id>/meta.json: used when the only tests missing from a suite run were environment-bound (zmq port held by
another process, timing under load).   usage: tools/seed_retest.py <seed-id> [<pytest node id> ...]"""
import json, os, re, signal, subprocess, sys

ROOT = os.path.dirname(os.path.dirname(os.path.abspath(__file__)))
sid = sys.argv[1]
d = os.path.join(ROOT, "seeded", sid)
meta = json.load(open(os.path.join(d, "meta.json")))
ev = meta.setdefault("evaluated", {})
ids = sys.argv[2:]
if not ids:
    for line in (ev.get("suite_with_change") or "").splitlines():
        m = re.match(r"\s*MISSING (\S+)::(\S+)", line)
        if m:
            mod = m.group(1).replace("src.bluesky.tests.", "src/bluesky/tests/") + ".py"
            ids.append(f"{mod}::{m.group(2)}")
if not ids:
    sys.exit("nothing to re-test")
wt = f"/tmp/ev/wt_{sid}_retest"
subprocess.run(f"git -C /repo worktree remove --force {wt}", shell=True, capture_output=True)
subprocess.run(f"git -C /repo worktree add -q --detach {wt} HEAD", shell=True, check=True)
try:
    subprocess.run(f"cp /repo/src/bluesky/_version.py {wt}/src/bluesky/_version.py", shell=True, check=True)
    subprocess.run(f"git -C {wt} apply {d}/patch.diff", shell=True, check=True)
    env = dict(os.environ, PYTHONPATH=f"{wt}/src")
    env.pop("BLUESKY_VERIF", None)
    # one pytest process per test: the SIGINT tests have sub-second budgets and disturb each other when they share a
    # process (observed: test_sigint_three_hits[True] fails right after [False], in either tree)
    rcs, tails = [], []
    for tid in ids:
        for attempt in range(2):
            r = subprocess.run(["/venv/bin/python", "-m", "pytest", "-q", "-p", "no:cacheprovider", "--timeout=900", tid], cwd=wt,
                               env=env, capture_output=True, text=True,
                               preexec_fn=lambda: signal.signal(signal.SIGINT, signal.SIG_DFL))
            if r.returncode == 0:
                break
        rcs.append(r.returncode)
        tails.append(f"{tid.split('::')[-1]}: " + (r.stdout.strip().splitlines()[-1] if r.stdout.strip() else r.stderr[-120:]))

    class _R:
        returncode = 0 if all(x == 0 for x in rcs) else 1
    r = _R()
    tail = "; ".join(tails)
finally:
    subprocess.run(f"git -C /repo worktree remove --force {wt}", shell=True, capture_output=True)
ev["suite_retest"] = {"tests": ids, "rc": r.returncode, "summary": tail}
if r.returncode == 0:
    ev["suite_passes"] = True
    meta.setdefault("what_i_ran", []).append(f"tests missing from the suite run re-run serially with the change ({', '.join(ids)}): {tail}")
json.dump(meta, open(os.path.join(d, "meta.json"), "w"), indent=1)
print(sid, r.returncode, tail)
