#!/bin/sh
# usage: tools/seed_try.sh <patch.diff> <tier> <check ids...>  -- runs checks against a scratch worktree with the change (no suite)
patch=$1; tier=$2; shift 2
wt=/tmp/ev/try_$$
mkdir -p /tmp/ev
git -C /repo worktree add -q --detach $wt HEAD || exit 3
cp /repo/src/bluesky/_version.py $wt/src/bluesky/_version.py
trap 'git -C /repo worktree remove --force '$wt'; rm -rf /tmp/ev/evid_'$$ EXIT INT TERM
git -C $wt apply "$patch" 2>/dev/null || git -C $wt apply --3way "$patch" >/dev/null 2>&1 || { echo "patch does not apply (even 3-way)"; exit 3; }
if git -C $wt diff --name-only --diff-filter=U | grep -q .; then echo "3-way conflict"; exit 3; fi
cd /verif
for c in "$@"; do
  out=$(VERIF_REPO=$wt VERIF_EVIDENCE_DIR=/tmp/ev/evid_$$ ./check "$c" --tier "$tier" 2>&1); rc=$?
  echo "$c rc=$rc $(echo "$out" | grep -m1 'sig=' | cut -c1-260)"
done
