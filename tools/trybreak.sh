#!/bin/sh
# usage: tools/trybreak.sh <patch.diff> <tier> <check ids...>
# Applies a seeded change to /repo, runs the named checks, and undoes the change straight afterwards.
patch="$1"; tier="$2"; shift 2
cd /verif
if ! git -C /repo diff --quiet; then echo "refusing: /repo has uncommitted changes"; exit 3; fi
git -C /repo apply "$patch" || { echo "patch does not apply"; exit 3; }
trap 'git -C /repo checkout -- . ; rm -rf /verif/.work/_tb' EXIT INT TERM
for c in "$@"; do
  out=$(./check "$c" --tier "$tier" 2>&1); rc=$?
  # evidence of the unchanged tree must not be overwritten by a run on a changed tree
  git -C /verif checkout -- "evidence/$c.json" 2>/dev/null
  sig=$(echo "$out" | grep -m1 "sig=" | cut -c1-220)
  echo "$c rc=$rc $sig"
done
