#!/usr/bin/env python3
"""Regenerate the table of DESIGN.md section 14 from seeded/<id>/meta.json (what it needs, which checks caught it) and
the hand-kept notes below (what each seed made me change in the checks)."""
import glob
import json
import os
import re

ROOT = os.path.dirname(os.path.dirname(os.path.abspath(__file__)))

# what a seed that the first version of its check missed made me add (empty = caught by the check as it stood)
NOTES = {
    "C03-b": "sparse-checkpoint keyed plans (`keys_sparse*`)",
    "C04-a": "`mixed` plan unstages a never-staged device (implicit checkpoint)",
    "C04-b": "replayed message *content* compared with a snapshot taken at `msg_hook`",
    "C05-a": "plan `mon_cfg`: a monitored signal configured while monitored",
    "C05-b": "plan `norewind_events`: events saved while rewinding is off, rewindable work before the next checkpoint",
    "C06-a": "plan `mon_closeleft`; subscribe/clear_sub fault points",
    "C06-b": "a `set()` that raised still counts as a set",
    "C07-b": "(demo adapted: external request_pause instead of a pause message, whose internals changed with fix 7bfce69)",
    "C09-a": "request pairs defer + suspend (which also exposed defect N-10)",
    "C10-a": "plan `clearcp_rw`: `rewindable` toggled inside the non-resumable section",
    "C10-b": "plan `clearcp_2runs`: run closed and another opened inside the section",
    "C11-a": "`RE.rewindable` after the call == after the same plan without suspensions; pairs in the quick tier",
    "C11-b": "(caught by C30 after adding a settle time `sleep=0.05` there)",
    "C12-a": "plan `late_wait` + pause/suspension landing before the wait on the failing status' group",
    "C12-b": "`locate` faults: coroutine locate(), multi-device messages (plan `locate2`)",
    "C13-a": "known finding narrowed from a wildcard to per-command keys (the wildcard masked this seed); patch rebased by hand onto fix 4a6a4dd",
    "C13-b": "wrapper `traced+filter`: a msg_mutator that removes messages (the plan must get None there)",
    "C14-b": "plans `keys_falsy*`: falsy run keys under an enclosing set_run_key_wrapper; uninterrupted plan must not fail",
    "C15-a": "failing saves (mismatched objects, subscriber raising on the event) after which the plan carries on",
    "C16-b": "bundles that are read and then dropped before a configure",
    "C17-a": "a later subscriber raising on `start` (emission fault)",
    "C17-b": "whitelist normalizer with (often) empty result",
    "C19-b": "a callback that unsubscribes itself while handling a document",
    "C21-b": "inserted plan that translates a thrown exception into another one",
    "C22-a": "variant finalize_wrapper(pause_for_debug=True)",
    "C22-b": "variant: second invocation of one decorated function",
    "C23-a": "engine failing the wrapper's own set-up messages; driver no longer drops executions whose exception leaves the wrapper at once",
    "C24-a": "a mover's own status failing at its 1st/2nd set",
    "C24-b": "Locatable fake whose readback differs from its setpoint",
    "C25-a": "consecutive repeated points",
    "C25-b": "steps of 1e-3 at positions of 8e3",
    "C26-b": "every call made twice with the same argument objects",
    "C30-b": "remove()+install() of the same suspender between two values",
    "C31-a": "history: held at the gate, paused, suspender removed while paused, resumed",
    "C31-b": "history: two tripped suspenders with identical justification released at different times",
    "C32-a": "command names that contain other command names (`unstage`/`stage`, ...) as plain-string handlers",
    "C34-a": "leftover file under the JSONWriter's name; second run of one writer instance",
    "C34-b": "uid-derived JSONL names; file created after the writer was constructed",
    "C35-a": "`filled` entries under reserved data-key names",
    "C39-b": "consecutive runs through one dispatcher instance",
    "C41-a": "a document consumer updating the monitored signal on RunStop + document-order oracle (no monitor event after its run's RunStop)",
    "C41-b": "interruption pairs: one before the first `monitor`, one after",
    "C42-a": "a later subscriber raising on the 1st/2nd RunStop; patch rebased onto fix 77cd2fb",
    "C42-b": "plan `park`: the cleanup records a run of its own after an abort",
    "C43-a": "the same values entered again after clear()/popitem()",
    "C45-a": "",
    "C46-a": "streams re-described in mid-run (second descriptor, same name)",
    # round 2 (fresh agents): the ones the checks missed when they arrived
    "C02-c": "plan `cleanup_fails` + abort with a reason: a RunStop that says 'fail' must carry the error's text",
    "C02-d": "C10: deferred pause requested inside a non-resumable section with checkpoints (plan `clearcp_cp`)",
    "C03-c": "caught by C05 after adding plan `norewind_point` (points taken with rewinding off, delay before the next checkpoint)",
    "C05-c": "plan `norewind_point`",
    "C05-d": "plan `clearcp_cfg` (stream re-described after clear_checkpoint) and uninterrupted runs judged too",
    "C12-d": "plan `late_wait2`: a motion started before open_run and waited for inside the run",
    "C13-c": "not caught: see the text above the table",
    "C23-d": "subs_wrapper given the same callable twice",
    # round 3 (fresh agents, one change per remaining property)
    "C17-e": "a normalizer that refuses the run by raising",
    "C35-e": "legacy data continuing across 2-4 Resources (which exposed defect N-12); patch rebased by hand onto fix a6cc92a",
    "C36-e": "a gap and an overlap of equal size in one concatenation",
    "C42-e": "a later subscriber raising on the RunStart",
    # round 4 (fresh agents, engine-level properties again)
    "C03-f": "(same change as C03-c/C05-c: caught by C05's `norewind_point` plan)",
    "C11-f": "request pairs made in ONE event-loop turn + oracle: both must be served",
    "C13-f": "a second pause landing inside the replay of the command the first interruption cancelled",
    # round 5 (fresh agents, six properties whose checks had needed the most additions)
    "C12-g": "library plans (count/scan...): a failed trigger status must arrive before the next checkpoint even when no wait on its group is found; count over detector + trigger-less signal",
    "C24-g": "family `pseudo_axes`: reset/relative wrappers on the axes of one ophyd PseudoPositioner, first moved at different steps",
    "C35-g": "stream re-described in mid-run (second descriptor, same name) with legacy frame datums continuing",
}


def main():
    rows = []
    for d in sorted(glob.glob(os.path.join(ROOT, "seeded", "*", ""))):
        sid = os.path.basename(d[:-1])
        m = json.load(open(os.path.join(d, "meta.json")))
        e = m.get("evaluated", {})
        needs = re.sub(r"\s+", " ", m.get("needs_to_manifest", ""))
        needs = (needs[:150] + "...") if len(needs) > 153 else needs
        caught = ", ".join(e.get("caught_by") or []) or "**missed**"
        tiers = []
        for c in e.get("caught_by") or []:
            tv = e.get("checks", {}).get(c, {})
            tiers.append(next((t for t, v in tv.items() if v.get("rc") == 1), "?"))
        if tiers and any(t != "quick" for t in tiers) and "quick" not in tiers:
            caught += " (thorough tier)"
        suite = "pass" if e.get("suite_passes") else ("FAIL" if e.get("suite_passes") is False else "?")
        rows.append(f"| {sid} | {needs.replace('|', '/')} | {caught} | {suite} | {NOTES.get(sid, '')} |")
    print("| seed | what it needs to manifest | caught by | suite with the change | what it made me add |")
    print("|------|---------------------------|-----------|-----------------------|---------------------|")
    print("\n".join(rows))


if __name__ == "__main__":
    main()
