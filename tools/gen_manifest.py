#!/venv/bin/python
"""Generate MANIFEST.json from the check modules present in vf/checks (single source of truth)."""
import importlib, json, os, sys
ROOT = os.path.dirname(os.path.dirname(os.path.abspath(__file__)))
sys.path.insert(0, ROOT); sys.path.insert(0, os.path.join(ROOT, ".deps"))
props = [json.loads(l) for l in open(os.path.join(ROOT, "properties.jsonl"))]
NOT_BUILT = "runtime monitor designed in DESIGN.md but not built yet in this tree; no check is claimed"
NA_REASONS = {}
na_path = os.path.join(ROOT, "not_applicable.json")
if os.path.exists(na_path):
    NA_REASONS = json.load(open(na_path))
checks, na = [], []
for p in props:
    pid = p["id"]
    path = os.path.join(ROOT, "vf", "checks", pid + ".py")
    if not os.path.exists(path) or pid in NA_REASONS:
        na.append({"property_id": pid, "reason": NA_REASONS.get(pid, NOT_BUILT)})
        continue
    mod = importlib.import_module("vf.checks." + pid)
    m = mod.MANIFEST
    c = {
        "property_id": pid,
        "quick_cmd": f"./check {pid} --tier quick",
        "thorough_cmd": f"./check {pid} --tier thorough",
        "evidence_file": f"evidence/{pid}.json",
        "replay_cmd_template": f"./check {pid} --replay {{path}}",
        "engine": m.get("engine", "vf"),
        "level_claimed": {"category": m["category"], "text": m["text"], "design_ref": "DESIGN.md " + m.get("design_ref", "")},
        "level_note": m["note"],
        "technique": m["technique"],
    }
    assert m["category"] == mod.LEVEL, pid
    checks.append(c)
hooks_path = os.path.join(ROOT, "hooks.json")
hooks = json.load(open(hooks_path)) if os.path.exists(hooks_path) else {}
man = {
    "version": 1,
    "setup_cmd": "sh setup.sh",
    "hooks": {
        "guard": "BLUESKY_VERIF",
        "enable": "checks export BLUESKY_VERIF=1 for their worker processes; bluesky is an editable install so workers import /repo/src as it is",
        "baseline_off_cmd": "cd /repo && env -u BLUESKY_VERIF /venv/bin/python -m pytest -ra -q -p no:cacheprovider --timeout=900 --continue-on-collection-errors",
        "source_commits": hooks.get("source_commits", []),
        "add_only": True,
    },
    "engines": [
        {"name": "vf", "path": "vf/", "serves_properties": [c["property_id"] for c in checks],
         "kind_free_text": "runtime monitoring: real bluesky code driven by generated/swept workloads on a step-counting "
                           "virtual-time asyncio loop with ledgered fake devices; offline oracles over one ordered event log, "
                           "reference-model differentials, icontract post-conditions"},
    ],
    "checks": checks,
    "not_applicable": na,
    "notes": "Technique family: runtime monitoring. Compiler sanitizers/valgrind/TSan do not apply (pure-Python repository). "
             "Exit 2 (no VIOLATION line) means inconclusive: deciding monitors not reached. Known findings: known_findings.json.",
}
json.dump(man, open(os.path.join(ROOT, "MANIFEST.json"), "w"), indent=1)
print(f"checks={len(checks)} not_applicable={len(na)}")
