"""RE-sweep: execute corpus plans on a fresh engine with requests landing at swept coordinates."""

from __future__ import annotations

import gc

from bluesky.utils import Msg, RunEngineInterrupted

from vf.corpus import CORPUS, devices
from vf.reh import Harness, Stuck, WallTimeout

KINDS = ["pause", "defer", "abort", "stop", "halt", "suspend"]
TKINDS = ["t-pause", "t-defer", "t-abort", "t-stop", "t-halt"]
DECISIONS = ["resume", "abort", "stop", "halt"]


class Exec:
    """Everything observed about one execution."""

    def __init__(self):
        self.h = None
        self.calls = []          # (name, ("ret"|"exc", value))
        self.final_state = None
        self.state_before_cleanup = None
        self.probe = None
        self.stuck = False
        self.timeout = False
        self.landed = []         # kinds that landed
        self.coords = []
        self.devices = {}
        self.spec = None
        self.forced_cleanup = False
        self.helper_hung = False
        self.deferred_after = None
        self.deferred_after_probe = None

    @property
    def log(self):
        return self.h.log


def execute(spec, keep_coords=False):
    ex = Exec()
    ex.spec = spec
    h = Harness(record_interruptions=spec.get("record_interruptions", False), virtual=True,
                wall_limit=spec.get("wall_limit", 20.0), **spec.get("re_kwargs", {}))
    ex.h = h
    faults = {tuple(k): v for k, v in spec.get("faults", [])}
    d = devices(h, faults, **spec.get("dev_kwargs", {}))
    ex.devices = d
    builder = spec.get("builder") or CORPUS[spec["plan"]]
    plan = builder(h, d, **spec.get("plan_args", {}))
    if spec.get("wrap"):
        plan = spec["wrap"](plan, h, d)
    if spec.get("wrap_name"):
        from vf.corpus import WRAPS

        plan = WRAPS[spec["wrap_name"]](plan, h, d)
    for inj in spec.get("inj", []):
        m, j, kind = inj[0], inj[1], inj[2]
        params = inj[3] if len(inj) > 3 else {}
        h.inject_at((m, j), kind, **params)
    if spec.get("doc_fault"):
        # a LATER subscriber (the harness' recorder is the first one) raises on the n-th document of a kind
        fname, fn = spec["doc_fault"]
        seen = {"n": 0}

        def failing_subscriber(name, doc):
            if name == fname:
                seen["n"] += 1
                if seen["n"] == fn:
                    h.log.append(("docfault", name, fn))
                    raise RuntimeError(f"subscriber failed on {name} #{fn}")

        h.RE.subscribe(failing_subscriber)
    if spec.get("doc_put"):
        # a document consumer that writes to a (monitored) signal when it sees a document of that kind
        pname, devname = spec["doc_put"]
        nput = {"n": 0}

        def putting_subscriber(name, doc):
            if name == pname:
                nput["n"] += 1
                d[devname].put(9000 + nput["n"])

        h.RE.subscribe(putting_subscriber)
    h.record_coords = keep_coords
    decisions = list(spec.get("decisions", []))
    RE = h.RE
    try:
        r = h.call("RE", RE, plan, **spec.get("call_md", {}))
        ex.calls.append(("RE", r))
        if h.helper_threads and not h.join_helpers():
            ex.helper_hung = True
        n = 0
        while RE.state == "paused" and n < 6:
            dec = decisions.pop(0) if decisions else None
            if dec is None:
                break
            n += 1
            r = h.call(dec, getattr(RE, dec))
            ex.calls.append((dec, r))
            if h.helper_threads and not h.join_helpers():
                ex.helper_hung = True
        ex.state_before_cleanup = str(RE.state)
        ex.deferred_after = bool(RE.deferred_pause_requested)
        if RE.state == "paused":
            # not part of the judged history: bring the engine down so that the case can end
            ex.forced_cleanup = True
            h.log.append(("harness", "forced-abort"))
            h.call("cleanup-abort", RE.abort)
        ex.final_state = str(RE.state)
        # the judged history is over: an injection whose coordinate was never reached must not fire in the probe
        for inj in h.injections:
            if not inj["fired"]:
                inj["fired"] = True
                inj["expired"] = True
        if spec.get("then") and not ex.forced_cleanup:
            # a second real call on the same engine (requests still in flight may take effect in it)
            h.log.append(("harness", "second-call"))
            for inj in h.injections:
                if inj.get("expired") and inj.get("carry"):
                    inj["fired"] = False
            d2 = devices(h, faults, **spec.get("dev_kwargs", {}))
            plan2 = CORPUS[spec["then"]](h, d2)
            r = h.call("RE2", RE, plan2)
            ex.calls.append(("RE2", r))
            if RE.state == "paused":
                h.call("cleanup-abort", RE.abort)
            ex.final_state = str(RE.state)
        elif spec.get("probe", True) and not ex.forced_cleanup:
            ex.probe = h.probe()
            ex.deferred_after_probe = bool(RE.deferred_pause_requested)
    except Stuck:
        ex.stuck = True
        ex.final_state = str(RE.state)
    except WallTimeout:
        ex.timeout = True
        ex.final_state = str(RE.state)
    if h.helper_failures:
        ex.stuck = ex.stuck or any(isinstance(e, Stuck) for e in h.helper_failures)
        ex.timeout = ex.timeout or any(isinstance(e, WallTimeout) for e in h.helper_failures)
    try:
        ex.rewindable_after = bool(RE.rewindable)
    except Exception:  # noqa: BLE001
        ex.rewindable_after = None
    ex.landed = [i["kind"] for i in h.injections if i["fired"] and not i.get("expired")]
    ex.coords = list(h.coords)
    h.close()
    return ex


def reference_coords(spec):
    """Run the uninterrupted reference; returns (Exec, ordered list of distinct coordinates)."""
    ex = execute(dict(spec, inj=[], decisions=[]), keep_coords=True)
    seen, out = set(), []
    for c in ex.coords:
        if c not in seen:
            seen.add(c)
            out.append(c)
    return ex, out


def finalize():
    gc.collect()
