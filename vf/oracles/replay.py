"""C04 replay automaton: what must be re-executed after a resume / suspension release.

Built from the property text and docs/state-machine.rst, not from the engine's code: a processed message is
remembered iff a checkpoint is in effect, the plan is rewindable and its command is replayable; implicit
checkpoints empty the memory; resume()/suspension push an expectation frame holding exactly the remembered
message OBJECTS, in order.

A never-replayed command that an interruption cancelled in mid-flight has not happened: it made no checkpoint and it
is executed (once) after the remembered messages.  The only such command whose completion the log shows is
'monitor' (ledger entry 'subscribe' of the monitored device).
"""

from __future__ import annotations

NON_REPLAYABLE = {"pause", "subscribe", "unsubscribe", "stage", "unstage", "monitor", "unmonitor", "open_run",
                  "close_run", "install_suspender", "remove_suspender", "_start_suspender"}
IMPLICIT_CHECKPOINT = {"checkpoint", "stage", "unstage", "monitor", "unmonitor", "subscribe", "unsubscribe", "close_run"}


def run_automaton(log):
    """log: Harness log. -> (problems, counters). problems: list of (kind, detail)."""
    cache = []            # list of Msg or None (after clear_checkpoint)
    rewindable = True
    frames = []           # stack of lists of expected Msg objects
    seen = set()          # id() of processed message objects (objects are kept alive by the log)
    pending_susp = []     # frames waiting for the suspender helper to finish: [frame, stage]
    first_content = {}    # id(msg) -> content snapshot taken when it was first handed to the engine
    problems = []
    counters = {"messages": 0, "replayed": 0, "resumes_with_nonempty_frame": 0, "suspensions_with_nonempty_frame": 0,
                "max_depth": 0, "after_clear_checkpoint": 0}
    post_clear = False    # a clear_checkpoint happened earlier in this call: later behaviour is documented loosely
    open_monitor = None   # (msg, memory before it) of a 'monitor' whose subscription has not been seen yet
    for i, e in enumerate(log):
        if open_monitor is not None:
            if e[0] == "dev" and e[2] == "subscribe" and e[1] == getattr(open_monitor[0].obj, "name", None):
                open_monitor = None          # it completed
            elif e[0] == "msg":
                open_monitor = None
            elif e[0] == "state" and e[1] in ("pausing", "suspending"):
                m0, before = open_monitor
                open_monitor = None
                if before is not None:
                    cache = list(before) + [m0]     # not done: runs again after what was remembered
        if e[0] == "call" and e[1] in ("RE", "probe"):
            cache, rewindable, frames, pending_susp, post_clear = [], True, [], [], False
        elif e[0] == "call" and e[1] == "resume":
            if cache is None:
                continue
            fr = list(cache)
            cache = []
            frames.append(fr)
            if fr:
                counters["resumes_with_nonempty_frame"] += 1
            counters["max_depth"] = max(counters["max_depth"], len(frames))
        elif e[0] == "msg":
            m = e[1]
            counters["messages"] += 1
            cmd = m.command
            while frames and not frames[-1]:
                frames.pop()
            if frames:
                head = frames[-1][0]
                if m is head:
                    frames[-1].pop(0)
                    counters["replayed"] += 1
                    # the re-executed message must still say what it said the first time
                    first = first_content.get(id(m))
                    now = e[2] if len(e) > 2 else None
                    if first is not None and now is not None and not post_clear:
                        if first[0] != now[0] or first[1] is not now[1] or first[2] != now[2] or first[3] != now[3] or first[4] != now[4]:
                            what = "kwargs" if first[3] != now[3] else ("args" if first[2] != now[2] else "other")
                            problems.append((f"replayed-message-content-changed:{cmd}:{what}",
                                             f"log[{i}] {cmd}{_a(m)} first executed with args={first[2]} kwargs={first[3]}, "
                                             f"replayed with args={now[2]} kwargs={now[3]}"))
                elif cmd == "_start_suspender" or (pending_susp and pending_susp[-1][1] != "armed"):
                    pass  # a suspension arriving during a replay: its helper messages come first (nested frame below)
                elif not post_clear:
                    problems.append(("wrong-message-during-replay",
                                     f"log[{i}] expected replay of {head.command}{_a(head)} got {cmd}{_a(m)}"
                                     f" ({'seen before' if id(m) in seen else 'new'})"))
                    frames = []
            else:
                if id(m) in seen and cmd not in ("_start_suspender",) and not post_clear:
                    problems.append(("unexpected-replay", f"log[{i}] {cmd}{_a(m)} executed again although nothing was pending"))
            seen.add(id(m))
            if len(e) > 2:
                first_content.setdefault(id(m), e[2])
            # ---- effects on the memory -------------------------------------------------------
            if cmd == "clear_checkpoint":
                cache = None
                post_clear = True
                counters["after_clear_checkpoint"] += 1
            if cache is not None and rewindable and cmd not in NON_REPLAYABLE:
                cache.append(m)
            if cmd == "monitor":
                open_monitor = (m, None if cache is None else list(cache))
            if cmd in IMPLICIT_CHECKPOINT:
                if cache is not None:
                    cache = []
            elif cmd == "rewindable":
                new = m.args[0] if m.args else None
                if new is not None and bool(new) != rewindable:
                    rewindable = bool(new)
                    if cache is not None:
                        cache = []
                if pending_susp and pending_susp[-1][1] == "resumed":
                    fr, _ = pending_susp.pop()
                    frames.append(fr)
                    if fr:
                        counters["suspensions_with_nonempty_frame"] += 1
                    counters["max_depth"] = max(counters["max_depth"], len(frames))
            elif cmd == "_start_suspender":
                if cache is not None:
                    pending_susp.append([list(cache), "started"])
                    cache = []
            elif cmd == "_resume_from_suspender":
                if pending_susp:
                    pending_susp[-1][1] = "resumed"
    return problems, counters


def _a(m):
    o = getattr(m.obj, "name", None)
    return f"({o})" if o else ""
