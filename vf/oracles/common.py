"""Helpers shared by the engine-level oracles (views over an Exec's log)."""

from __future__ import annotations

from bluesky.utils import RunEngineInterrupted


def quiet_logging():
    import logging
    import warnings

    logging.disable(logging.CRITICAL)
    warnings.simplefilter("ignore")


def landing_info(ex, ref_nmsgs=None):
    """For each landed injection: dict(kind, coord, state, command, region)."""
    out = []
    state = "idle"
    last_cmd = None
    nmsg = 0
    for e in ex.log:
        if e[0] == "state":
            state = e[1]
        elif e[0] == "msg":
            last_cmd = e[1].command
            nmsg += 1
        elif e[0] == "inject":
            region = "body"
            if ref_nmsgs is not None and e[2][0] >= ref_nmsgs - 2:
                region = "tail"  # within the plan's last two messages or after its last message
            if e[2][0] == 0:
                region = "before-first-msg"
            out.append({"kind": e[1], "coord": e[2], "state": state, "command": last_cmd, "region": region})
    return out


def call_class(name, r):
    if r[0] == "ret":
        return f"{name}:ret"
    e = r[1]
    return f"{name}:{type(e).__name__}"


def outcome_class(ex):
    s = ">".join(call_class(n, r) for n, r in ex.calls)
    return f"{s}|final={ex.state_before_cleanup or ex.final_state}"


def requests(ex):
    """[(kind, 'accepted'|'rejected'|'error', info)] for coroutine requests, in log order."""
    return [(e[1], e[2], e[3]) for e in ex.log if e[0] == "req"]


def spec_json(spec):
    out = {k: v for k, v in spec.items() if k not in ("builder", "wrap")}
    if "inj" in out:
        # request parameters may hold plan objects / callables: keep only what can be written to a replay file
        out["inj"] = [list(i[:3]) + ([{k: v for k, v in i[3].items() if isinstance(v, (str, int, float, type(None)))}]
                                      if len(i) > 3 else []) for i in out["inj"]]
    return out


def run_docs(docs):
    """Group documents by run: returns (runs: dict start_uid -> list[(name, doc)], orphans)."""
    runs, desc_run, res_run, sres_run, orphans = {}, {}, {}, {}, []
    for name, doc in docs:
        if name == "start":
            runs[doc["uid"]] = [(name, doc)]
        elif name in ("descriptor", "stop", "resource", "stream_resource"):
            r = doc.get("run_start")
            if r in runs:
                runs[r].append((name, doc))
                if name == "descriptor":
                    desc_run[doc["uid"]] = r
                elif name == "resource":
                    res_run[doc["uid"]] = r
                elif name == "stream_resource":
                    sres_run[doc["uid"]] = r
            else:
                orphans.append((name, doc))
        elif name in ("event", "event_page", "stream_datum"):
            r = desc_run.get(doc.get("descriptor"))
            if r is not None:
                runs[r].append((name, doc))
            else:
                orphans.append((name, doc))
        elif name in ("datum", "datum_page"):
            r = res_run.get(doc.get("resource"))
            if r is not None:
                runs[r].append((name, doc))
            else:
                orphans.append((name, doc))
        else:
            orphans.append((name, doc))
    return runs, orphans


def lost_uncacheable(ex):
    """Mechanism classifier: did a pause/suspension cancel a 'monitor' command in mid-flight (the command is uncacheable,
    so it is neither completed nor replayed)? -> 'monitor' or None."""
    last = None
    for i, e in enumerate(ex.log):
        if e[0] == "msg":
            last = (i, e[1])
        elif e[0] == "state" and e[1] in ("pausing", "suspending") and last is not None:
            j, m = last
            if m.command == "monitor":
                subscribed = any(x[0] == "dev" and x[2] == "subscribe" and x[1] == getattr(m.obj, "name", None)
                                 for x in ex.log[j:i])
                if not subscribed:
                    return "monitor"
            last = None
    return None
