"""Document-stream oracles (C01 lifecycle/references/uids/schema; C05 numbering)."""

from __future__ import annotations

_validators = None


def validators():
    global _validators
    if _validators is None:
        import event_model

        _validators = {k.name: v for k, v in event_model.schema_validators.items()}
    return _validators


def check_stream(docs, engine_idle=True, validate=True):
    """Single pass with per-run state. docs = [(name, doc)] in emission order. -> list of (kind, detail)."""
    problems = []
    seen_uids = {}
    runs = {}       # start uid -> {"stopped": bool, "descriptors": set, "resources": set, "stream_resources": set}
    desc_run, res_run, sres_run = {}, {}, {}
    counts = {"docs": 0, "schema_validated": 0, "refs_checked": 0}

    def uid_once(kind, uid):
        if uid in seen_uids:
            problems.append(("duplicate-uid:" + kind, f"{kind} uid {uid} also used by {seen_uids[uid]}"))
        else:
            seen_uids[uid] = kind

    def open_run_of(run_uid, what):
        r = runs.get(run_uid)
        counts["refs_checked"] += 1
        if r is None:
            problems.append((f"{what}-references-unknown-run", f"{what} refers to run {run_uid} never started"))
            return None
        if r["stopped"]:
            problems.append((f"{what}-after-stop", f"{what} emitted for run {run_uid} after its RunStop"))
        return r

    for name, doc in docs:
        counts["docs"] += 1
        if validate:
            v = validators().get(name)
            if v is not None:
                try:
                    v.validate(doc)
                    counts["schema_validated"] += 1
                except Exception as e:  # noqa: BLE001
                    problems.append((f"schema-invalid:{name}", str(e)[:200]))
        if name == "start":
            uid_once("start", doc["uid"])
            runs[doc["uid"]] = {"stopped": False, "nstop": 0}
        elif name == "stop":
            uid_once("stop", doc["uid"])
            r = runs.get(doc["run_start"])
            counts["refs_checked"] += 1
            if r is None:
                problems.append(("stop-references-unknown-run", f"stop for {doc['run_start']}"))
            else:
                r["nstop"] += 1
                if r["stopped"]:
                    problems.append(("second-stop", f"run {doc['run_start']} stopped twice"))
                r["stopped"] = True
        elif name == "descriptor":
            uid_once("descriptor", doc["uid"])
            if open_run_of(doc["run_start"], "descriptor") is not None:
                desc_run[doc["uid"]] = doc["run_start"]
        elif name in ("event", "event_page", "stream_datum"):
            if name == "event":
                uid_once("event", doc["uid"])
            elif name == "event_page":
                for u in doc["uid"]:
                    uid_once("event", u)
            else:
                uid_once("stream_datum", doc["uid"])
            d = doc["descriptor"]
            counts["refs_checked"] += 1
            if d not in desc_run:
                problems.append((f"{name}-references-unknown-descriptor", f"{name} refers to descriptor {d}"))
            else:
                open_run_of(desc_run[d], name)
                if name == "stream_datum":
                    sr = doc["stream_resource"]
                    if sr not in sres_run:
                        problems.append(("stream_datum-references-unknown-stream_resource", sr))
                    elif sres_run[sr] != desc_run[d]:
                        problems.append(("stream_datum-crosses-runs", f"{sr} belongs to {sres_run[sr]}"))
        elif name == "resource":
            uid_once("resource", doc["uid"])
            if open_run_of(doc.get("run_start"), "resource") is not None:
                res_run[doc["uid"]] = doc["run_start"]
        elif name == "stream_resource":
            uid_once("stream_resource", doc["uid"])
            if open_run_of(doc.get("run_start"), "stream_resource") is not None:
                sres_run[doc["uid"]] = doc["run_start"]
        elif name == "datum":
            uid_once("datum", doc["datum_id"])
            counts["refs_checked"] += 1
            if doc["resource"] not in res_run:
                problems.append(("datum-references-unknown-resource", doc["resource"]))
            else:
                open_run_of(res_run[doc["resource"]], "datum")
        elif name == "datum_page":
            for u in doc["datum_id"]:
                uid_once("datum", u)
    if engine_idle:
        for uid, r in runs.items():
            if r["nstop"] == 0:
                problems.append(("run-never-stopped", f"run {uid} has no RunStop although the engine is idle"))
    return problems, counts, runs


def numbering(docs, rewind_marks=(), monitor_streams=(), collect_streams=()):
    """C05 oracle. docs = [(log index, name, doc)], rewind_marks = sorted log indices of rewinds.

    -> (problems, counts)."""
    import bisect

    problems = []
    counts = {"streams": 0, "events": 0, "repeats_after_rewind": 0, "stream_datums": 0}
    desc = {}      # descriptor uid -> (run, stream name)
    streams = {}   # (run, name) -> {"seq": [(logidx, seq_num)], "sd": [(start, stop, istart, istop)]}
    stops = {}
    for idx, name, doc in docs:
        if name == "descriptor":
            desc[doc["uid"]] = (doc["run_start"], doc.get("name"))
            streams.setdefault((doc["run_start"], doc.get("name")), {"seq": [], "sd": []})
        elif name == "event":
            k = desc.get(doc["descriptor"])
            if k:
                streams[k]["seq"].append((idx, doc["seq_num"]))
        elif name == "event_page":
            k = desc.get(doc["descriptor"])
            if k:
                for s in doc["seq_num"]:
                    streams[k]["seq"].append((idx, s))
        elif name == "stream_datum":
            k = desc.get(doc["descriptor"])
            if k:
                streams[k]["sd"].append((idx, doc["seq_nums"]["start"], doc["seq_nums"]["stop"],
                                         doc["indices"]["start"], doc["indices"]["stop"], doc["stream_resource"]))
        elif name == "stop":
            stops[doc["run_start"]] = doc
    for (run, sname), st in streams.items():
        counts["streams"] += 1
        kind = "interruptions" if sname == "interruptions" else ("monitor" if sname in monitor_streams else
                                                                 ("collect" if sname in collect_streams else "bundle"))
        seq = st["seq"]
        counts["events"] += len(seq)
        stop = stops.get(run)
        nums = [s for _, s in seq]
        # stream-datum-only streams count their frames through seq_nums ranges
        sd_by_res = {}
        for sd in st["sd"]:
            sd_by_res.setdefault(sd[5], []).append(sd)
        top_sd = 0
        for res, lst in sd_by_res.items():
            counts["stream_datums"] += len(lst)
            expect = None
            for (_i, s0, s1, i0, i1, _r) in lst:
                if s1 - s0 != i1 - i0:
                    problems.append((f"stream_datum-width-mismatch:{kind}", f"{sname}: seq [{s0},{s1}) indices [{i0},{i1})"))
                if expect is not None and s0 != expect:
                    problems.append((f"stream_datum-not-contiguous:{kind}", f"{sname}: seq_nums start {s0}, previous stop {expect}"))
                if expect is None and s0 != 1 and not rewind_marks:
                    problems.append((f"stream_datum-does-not-start-at-1:{kind}", f"{sname}: first seq_nums start {s0}"))
                expect = s1
            top_sd = max(top_sd, (expect or 1) - 1)
        if stop is not None:
            n = stop.get("num_events", {}).get(sname, 0)
            have = set(nums)
            if nums:
                if have != set(range(1, n + 1)):
                    missing = sorted(set(range(1, n + 1)) - have)[:5]
                    extra = sorted(have - set(range(1, n + 1)))[:5]
                    problems.append((f"seq_nums-not-1..N:{kind}",
                                     f"stream {sname}: num_events={n} seq_nums={sorted(nums)[:12]} missing={missing} extra={extra}"))
            elif st["sd"]:
                if n != top_sd:
                    problems.append((f"num_events-vs-stream_datum:{kind}", f"stream {sname}: num_events={n} stream_datum top {top_sd}"))
            elif n != 0:
                problems.append((f"num_events-without-events:{kind}", f"stream {sname}: num_events={n} but no event emitted"))
        # monotonic by exactly one between rewind marks; repeats only across a mark and only for bundle streams
        prev = None
        for idx, s in seq:
            if prev is not None:
                pidx, ps = prev
                crossed = bisect.bisect_right(rewind_marks, idx) != bisect.bisect_right(rewind_marks, pidx)
                if s == ps + 1:
                    pass
                elif s <= ps:
                    if not crossed:
                        problems.append((f"seq_num-repeated-without-rewind:{kind}", f"stream {sname}: {ps} then {s}"))
                    elif kind not in ("bundle", "collect"):
                        # ("collect" event pages come from a replayed kickoff/complete/collect sequence: a re-taken flight)
                        problems.append((f"seq_num-reused-after-rewind:{kind}", f"stream {sname}: {ps} then {s} (events of this kind are never re-taken)"))
                    else:
                        counts["repeats_after_rewind"] += 1
                else:
                    problems.append((f"seq_num-gap:{kind}", f"stream {sname}: {ps} then {s}"))
            prev = (idx, s)
    return problems, counts
