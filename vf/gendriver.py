"""Generator-program grammar, interpreter and driver for the pure-generator properties (C20-C23, C28, C32).

A *program* is a small JSON-able AST interpreted by a recursive generator that logs everything it observes
(responses received, exceptions thrown at it, handlers and finally blocks entered, closes).  A *script* is the
sequence of actions a consumer applies at successive yields.  ``drive`` runs one (generator, script) pair and
returns a trace; differentials compare traces + program logs of a wrapped and an unwrapped instance.

Driver discipline (needed for soundness, see DESIGN 5): the driver keeps the generators alive, always ends
with an explicit ``close()`` of the outermost generator, and the logs are snapshotted right after that call
and before any reference is dropped, so GC-time closes can never be mistaken for wrapper behaviour.
"""

from __future__ import annotations

import itertools

from bluesky.utils import Msg, RequestAbort, RequestStop

# ---------------------------------------------------------------------------------------------
# AST:  ["y"] | ["raise"] | ["ret"] | ["seq", a, b] | ["yf", p] | ["loop", n, p]
#       ["tf", body, fin]                      try/finally
#       ["te", body, mode, handler]            try/except Exception, mode in swallow|reraise|new
#       ["tef", body, mode, handler, fin]      try/except/finally
#       ["tee", body, mode, handler, els]      try/except/else
# ---------------------------------------------------------------------------------------------


class _Ret(BaseException):
    def __init__(self, value):
        self.value = value


class ProgError(ValueError):
    pass


class Transformed(KeyError):
    pass


def count_nodes(ast):
    return 1 + sum(count_nodes(c) for c in ast[1:] if isinstance(c, list))


def label(ast, counter=None):
    """Return a copy with unique integer tags on every leaf (position identity)."""
    if counter is None:
        counter = itertools.count()
    out = [ast[0]]
    for c in ast[1:]:
        out.append(label(c, counter) if isinstance(c, list) else c)
    out.append(next(counter))
    return out


def _interp(node, log, ctx):
    kind, tag = node[0], node[-1]
    if kind == "y":
        msg = Msg("null", None, tag, pid=ctx["pid"])
        ctx["msgs"].append(msg)
        log.append(("yield", tag))
        try:
            r = yield msg
        except GeneratorExit:
            log.append(("closed_at", tag))
            raise
        except BaseException as e:
            log.append(("thrown_at", tag, type(e).__name__, e is ctx.get("thrown")))
            raise
        log.append(("recv", tag, r))
        return r
    if kind == "raise":
        log.append(("raise", tag))
        raise ProgError("prog-raise", tag)
    if kind == "ret":
        log.append(("ret", tag))
        raise _Ret(("ret", tag))
    if kind == "seq":
        r = None
        for c in node[1:-1]:
            r = yield from _interp(c, log, ctx)
        return r
    if kind == "yf":
        return (yield from _interp(node[1], log, ctx))
    if kind == "loop":
        r = None
        for _ in range(node[1]):
            r = yield from _interp(node[2], log, ctx)
        return r
    if kind == "tf":
        try:
            r = yield from _interp(node[1], log, ctx)
        finally:
            log.append(("finally", tag))
            yield from _interp(node[2], log, ctx)
        return r
    if kind in ("te", "tef", "tee"):
        mode, handler = node[2], node[3]
        fin = node[4] if kind == "tef" else None
        els = node[4] if kind == "tee" else None
        try:
            try:
                r = yield from _interp(node[1], log, ctx)
            except Exception as e:
                log.append(("caught", tag, type(e).__name__))
                if mode == "swallow":
                    r = yield from _interp(handler, log, ctx)
                elif mode == "reraise":
                    yield from _interp(handler, log, ctx)
                    raise
                else:
                    yield from _interp(handler, log, ctx)
                    raise Transformed("transformed", tag) from e
            else:
                if els is not None:
                    log.append(("else", tag))
                    r = yield from _interp(els, log, ctx)
        finally:
            if fin is not None:
                log.append(("finally", tag))
                yield from _interp(fin, log, ctx)
        return r
    raise AssertionError(kind)


_pid = itertools.count()


class _PrefLog:
    """Append-only view of a shared log that prefixes every entry with the program's name."""

    def __init__(self, shared, name):
        self.shared, self.name = shared, name

    def append(self, x):
        self.shared.append((self.name,) + tuple(x))


class Program:
    """One instantiation of an AST: .gen is the generator, .log what it observed."""

    def __init__(self, ast, name="P", log=None, arg=None):
        self.ast = ast
        self.name = name
        self.arg = arg
        self.log = [] if log is None else _PrefLog(log, name)
        self.ctx = {"pid": f"{name}{next(_pid)}", "msgs": [], "thrown": None}
        self.gen = self._top()

    def _top(self):
        try:
            r = yield from _interp(self.ast, self.log, self.ctx)
        except _Ret as e:
            self.log.append(("returned", e.value))
            return e.value
        self.log.append(("returned", ("end", r)))
        return ("end", r)


def make_gen_func(ast, name, registry, log=None, ctxs=None):
    """A generator *function* (for wrappers that need callables); every call registers its Program."""

    def f(*args):
        p = Program(ast, name, log=log, arg=args[0] if args else None)
        registry.append(p)
        if ctxs is not None:
            ctxs.append(p.ctx)
        if log is not None:
            log.append((name, "instantiated", type(args[0]).__name__ if args else None))
        return p.gen

    return f


# ---------------------------------------------------------------------------------------------
# enumeration
# ---------------------------------------------------------------------------------------------

_LEAVES = [["y"], ["raise"], ["ret"]]


def enumerate_programs(size, allow_ret=True, _memo={}):  # noqa: B006
    """All ASTs with exactly `size` nodes."""
    key = (size, allow_ret)
    if key in _memo:
        return _memo[key]
    out = []
    if size == 1:
        out = [list(x) for x in _LEAVES if allow_ret or x[0] != "ret"]
    else:
        # unary
        for p in enumerate_programs(size - 1, allow_ret):
            out.append(["yf", p])
        if size >= 3:
            for p in enumerate_programs(size - 1, allow_ret):
                if p[0] == "y":
                    out.append(["loop", 2, p])
        # binary
        for i in range(1, size - 1):
            j = size - 1 - i
            for a in enumerate_programs(i, allow_ret):
                for b in enumerate_programs(j, allow_ret):
                    if a[0] not in ("raise", "ret"):
                        out.append(["seq", a, b])
                    out.append(["tf", a, b])
                    for mode in ("swallow", "reraise", "new"):
                        out.append(["te", a, mode, b])
        # ternary
        for i in range(1, size - 2):
            for j in range(1, size - 1 - i):
                k = size - 1 - i - j
                if k < 1:
                    continue
                for a in enumerate_programs(i, allow_ret):
                    for b in enumerate_programs(j, allow_ret):
                        for c in enumerate_programs(k, allow_ret):
                            out.append(["tef", a, "swallow", b, c])
                            out.append(["tee", a, "reraise", b, c])
    _memo[key] = out
    return out


def random_program(rng, size, allow_ret=True):
    if size <= 1:
        r = rng.random()
        if r < 0.7:
            return ["y"]
        if r < 0.87 or not allow_ret:
            return ["raise"]
        return ["ret"]
    kind = rng.choice(["seq", "seq", "yf", "tf", "te", "tef", "tee", "loop"])
    if kind == "yf":
        return ["yf", random_program(rng, size - 1, allow_ret)]
    if kind == "loop":
        return ["loop", rng.choice([2, 3]), random_program(rng, min(size - 1, 3), allow_ret)]
    if kind in ("seq", "tf", "te") or size < 4:
        i = rng.randint(1, max(1, size - 2))
        a = random_program(rng, i, allow_ret)
        b = random_program(rng, max(1, size - 1 - i), allow_ret)
        if kind == "te":
            return ["te", a, rng.choice(["swallow", "reraise", "new"]), b]
        if kind == "tf":
            return ["tf", a, b]
        return ["seq", a, b]
    i = rng.randint(1, size - 3)
    j = rng.randint(1, size - 2 - i)
    k = max(1, size - 1 - i - j)
    a, b, c = (random_program(rng, n, allow_ret) for n in (i, j, k))
    if kind == "tef":
        return ["tef", a, rng.choice(["swallow", "reraise", "new"]), b, c]
    return ["tee", a, rng.choice(["swallow", "reraise", "new"]), b, c]


def max_yields(ast):
    """Upper bound on the number of yields one execution can perform (for script lengths)."""
    k = ast[0]
    if k == "y":
        return 1
    if k in ("raise", "ret"):
        return 0
    if k == "loop":
        return ast[1] * max_yields(ast[2])
    return sum(max_yields(c) for c in ast[1:] if isinstance(c, list))


# ---------------------------------------------------------------------------------------------
# scripts and driver
# ---------------------------------------------------------------------------------------------

ACTIONS = ["send", "ValueError", "RequestStop", "RequestAbort", "close"]
_EXC = {"ValueError": ValueError, "RequestStop": RequestStop, "RequestAbort": RequestAbort, "KeyError": KeyError}


def all_scripts(length):
    return [list(s) for s in itertools.product(ACTIONS, repeat=length)]


def deviation_scripts(length):
    """send* with exactly one non-send action at each position, plus the all-send script."""
    out = [["send"] * length]
    for pos in range(length):
        for a in ACTIONS[1:]:
            s = ["send"] * length
            s[pos] = a
            out.append(s)
    return out


def drive(gen, script, thrown_sink=None, tagger=None):
    """Apply `script` at successive yields of `gen`; always finish with an explicit close().

    Returns (trace, outcome). trace: list of ("yielded", tag) ; outcome: tuple describing how it ended.
    `thrown_sink`: list of dicts (Program.ctx) whose "thrown" key is set to the exception object being thrown.
    """
    trace = []
    msgs = []
    outcome = None
    step = 0
    try:
        msg = gen.send(None)
        while True:
            msgs.append(msg)
            trace.append(("yielded", tagger(msg) if tagger else (msg.command, msg.args, msg.kwargs.get("pid"))))
            if step >= len(script):
                break
            act = script[step]
            step += 1
            if act == "send":
                msg = gen.send(("v", step))
            elif act == "close":
                break
            else:
                e = _EXC[act](f"driver-{act}-{step}")
                for c in thrown_sink or ():
                    c["thrown"] = e
                try:
                    msg = gen.throw(e)
                finally:
                    pass
    except StopIteration as s:
        outcome = ("return", s.value)
    except BaseException as e:  # noqa: BLE001
        same = any(c.get("thrown") is e for c in thrown_sink or ())
        outcome = ("raise", type(e).__name__, repr(e.args), same)
    try:
        gen.close()
        if outcome is None:
            outcome = ("closed",)
    except BaseException as e:  # noqa: BLE001
        outcome = (outcome, ("close-raised", type(e).__name__, str(e)[:60]))
    return trace, outcome, msgs


def norm_log(log):
    """Program log with driver-independent content (pids differ between instances)."""
    return [tuple(x) for x in log]
