"""RunEngine harness: one real RunEngine on a StepLoop with one totally ordered log.

Log entries (tuples, first element = kind):
  ("msg", Msg)                       msg_hook (the object itself is kept alive by the log)
  ("state", new, old)                state_hook
  ("doc", name, deep-copied doc)     first subscriber of the dispatcher
  ("dev", device, op, args, extra)   fake-device ledger
  ("fault", device, op, mode, exc)   injected device failure
  ("call", name) / ("ret", name, value) / ("exc", name, exception)   public blocking calls, client side
  ("inject", kind, coord)            a request landed (between two loop handles)
  ("req", kind, "accepted"|"rejected", info)
  ("plan", ...)                      whatever the self-instrumented plan reports
  ("loop_exc", message, exception)   loop exception handler (unretrieved task exceptions ...)
Every entry is followed in a parallel list by (virtual time, msg index, handle sub-index).
"""

from __future__ import annotations

import asyncio
import copy
import threading
import time

from bluesky.run_engine import RunEngine, TransitionError
from bluesky.utils import DuringTask, Msg, RunEngineInterrupted

from vf.steploop import StepLoop


class Stuck(BaseException):
    """The loop is provably quiescent while a blocking call is outstanding."""


class WallTimeout(BaseException):
    """Wall-clock watchdog fired: inconclusive, never a violation."""


class Log(list):
    def __init__(self, h):
        super().__init__()
        self.h = h
        self.stamps = []
        self._lock = threading.Lock()

    def append(self, x):
        with self._lock:
            super().append(x)
            h = self.h
            self.stamps.append((h.loop._vnow, h.msg_idx, h.sub))


class _Watch(DuringTask):
    def __init__(self, h):
        self.h = h

    def block(self, ev):
        h = self.h
        t0 = time.monotonic()
        while not ev.wait(0.01):
            if h.loop.is_quiescent_for(h.stuck_after) and h.helpers_pending == 0:
                # re-check after a grace period: the event may have been set in between
                if ev.wait(0.05):
                    return
                if h.loop.is_quiescent_for(h.stuck_after) and h.helpers_pending == 0:
                    raise Stuck()
            if time.monotonic() - t0 > h.wall_limit:
                raise WallTimeout()


class Harness:
    def __init__(self, *, virtual=True, record_interruptions=False, md=None, wall_limit=20.0, stuck_after=0.4,
                 deepcopy_docs=True, **re_kwargs):
        self.loop = StepLoop(virtual=virtual)
        self.msg_idx = 0
        self.sub = 0
        self.log = Log(self)
        self.wall_limit = wall_limit
        self.stuck_after = stuck_after
        self.helpers_pending = 0
        self.injections = []
        self.coords = []  # every (msg_idx, sub) visited, in order
        self.record_coords = False
        self.deepcopy_docs = deepcopy_docs
        self.RE = RunEngine(md if md is not None else {}, loop=self.loop, context_managers=[],
                            during_task=_Watch(self), **re_kwargs)
        self.RE.record_interruptions = record_interruptions
        self.RE.msg_hook = self._on_msg
        self.RE.state_hook = self._on_state
        self.doc_token = self.RE.subscribe(self._on_doc)
        self.loop.after_handle = self._tick
        self.loop.set_exception_handler(self._on_loop_exc)
        self.closed = False
        self.helper_threads = []
        self.helper_failures = []
        self._hlock = threading.Lock()

    # -- observation hooks --------------------------------------------------------------------
    def _on_msg(self, msg):
        self.msg_idx += 1
        self.sub = 0
        # third field: the message's content at the moment it was handed to the engine (the engine may not edit it)
        try:
            snap = (msg.command, msg.obj, tuple(msg.args), copy.deepcopy(dict(msg.kwargs)), msg.run)
        except Exception:  # noqa: BLE001
            snap = (msg.command, msg.obj, tuple(msg.args), dict(msg.kwargs), msg.run)
        self.log.append(("msg", msg, snap))

    def _on_state(self, new, old):
        self.log.append(("state", str(new), str(old)))

    def _on_doc(self, name, doc):
        self.log.append(("doc", name, copy.deepcopy(doc) if self.deepcopy_docs else doc))

    def _on_loop_exc(self, loop, ctx):
        self.log.append(("loop_exc", ctx.get("message"), ctx.get("exception")))

    def _tick(self):
        self.sub += 1
        c = (self.msg_idx, self.sub)
        if self.record_coords:
            self.coords.append(c)
        for inj in self.injections:
            if not inj["fired"] and inj["coord"] == c:
                inj["fired"] = True
                self.log.append(("inject", inj["kind"], c))
                inj["fire"]()

    # -- requests (land between two handles, like a call_soon_threadsafe from a foreign thread) ----
    def _wrap(self, kind, coro):
        async def w():
            try:
                r = await coro
            except TransitionError as e:
                self.log.append(("req", kind, "rejected", str(e)))
            except Exception as e:  # noqa: BLE001
                self.log.append(("req", kind, "error", e))
            else:
                self.log.append(("req", kind, "accepted", r))

        return w()

    def fire_request(self, kind, **params):
        RE, loop = self.RE, self.loop
        if kind in ("abort", "stop", "halt", "t-abort", "t-stop", "t-halt") and str(RE._state) == "paused":
            # While the engine is paused its caller has the prompt back and takes the decision through the public
            # method (which also resumes the run task). A bare coroutine here would model nothing real.
            self.log.append(("req", kind, "not-fired-paused", None))
            return
        if kind.startswith("t-"):
            return self._fire_public_from_thread(kind)
        if kind == "pause":
            loop.call_soon(lambda: asyncio.ensure_future(self._wrap(kind, RE._request_pause_coro(False)), loop=loop))
        elif kind == "defer":
            loop.call_soon(lambda: asyncio.ensure_future(self._wrap(kind, RE._request_pause_coro(True)), loop=loop))
        elif kind == "abort":
            loop.call_soon(lambda: loop.create_task(self._wrap(kind, RE._abort_coro(params.get("reason", "")))))
        elif kind == "stop":
            loop.call_soon(lambda: loop.create_task(self._wrap(kind, RE._stop_coro())))
        elif kind == "halt":
            loop.call_soon(lambda: loop.create_task(self._wrap(kind, RE._halt_coro())))
        elif kind.startswith("suspend"):
            delta = params.get("release_after", 0.3)
            ev = asyncio.Event()
            loop.call_later(delta, lambda: (self.log.append(("release", kind, delta, ev)), ev.set()))
            RE.request_suspend(ev.wait, pre_plan=params.get("pre_plan"), post_plan=params.get("post_plan"),
                               justification=params.get("justification"))
        else:
            raise ValueError(kind)

    def _fire_public_from_thread(self, kind):
        """Thread-faithful request: a helper thread calls the PUBLIC method; the loop thread (we are between two
        handles) waits until that thread has posted its call_soon_threadsafe, so the landing point is exact."""
        RE = self.RE
        fn = {"t-abort": RE.abort, "t-stop": RE.stop, "t-halt": RE.halt, "t-pause": RE.request_pause,
              "t-defer": lambda: RE.request_pause(True)}[kind]
        posted = threading.Event()
        self.loop._foreign_posted = posted

        def run():
            try:
                self.call(kind, fn)
            except (Stuck, WallTimeout) as e:
                self.helper_failures.append(e)
            finally:
                with self._hlock:
                    self.helpers_pending -= 1

        with self._hlock:
            self.helpers_pending += 1
        th = threading.Thread(target=run, daemon=True, name="vf-helper")
        th.start()
        self.helper_threads.append(th)
        posted.wait(1.0)
        self.loop._foreign_posted = None

    def join_helpers(self, timeout=10.0):
        ok = True
        for th in self.helper_threads:
            th.join(timeout)
            ok = ok and not th.is_alive()
        return ok

    def inject_at(self, coord, kind, **params):
        self.injections.append({"coord": tuple(coord), "kind": kind, "fired": False,
                                "fire": lambda: self.fire_request(kind, **params)})

    def inject_fn_at(self, coord, kind, fn):
        self.injections.append({"coord": tuple(coord), "kind": kind, "fired": False, "fire": fn})

    # -- public blocking calls, recorded at the client boundary -----------------------------------
    def call(self, name, fn, *args, **kwargs):
        self.log.append(("call", name))
        try:
            r = fn(*args, **kwargs)
        except (Stuck, WallTimeout) as e:
            self.log.append(("exc", name, e))
            raise
        except BaseException as e:  # noqa: BLE001
            self.log.append(("exc", name, e))
            return ("exc", e)
        self.log.append(("ret", name, r))
        return ("ret", r)

    def probe(self):
        """Is the engine usable for the next call? -> ("ret", uids) expected."""
        if self.RE.state != "idle":
            return ("exc", RuntimeError(f"state is {self.RE.state}"))
        return self.call("probe", self.RE, [Msg("null")])

    def close(self):
        if self.closed:
            return
        self.closed = True
        loop = self.loop
        try:
            loop.call_soon_threadsafe(loop.stop)
            self.RE._th.join(2.0)
            if not loop.is_running():
                # cancel whatever is left so that closing the loop is quiet
                for t in asyncio.all_tasks(loop):
                    t.cancel()
                loop.set_exception_handler(lambda *a: None)
                try:
                    loop.run_until_complete(asyncio.sleep(0))
                except BaseException:  # noqa: BLE001
                    pass
                loop.close()
        except BaseException:  # noqa: BLE001
            pass

    # -- views over the log ---------------------------------------------------------------------
    def docs(self):
        return [(e[1], e[2]) for e in self.log if e[0] == "doc"]

    def msgs(self):
        return [e[1] for e in self.log if e[0] == "msg"]

    def states(self):
        return [(e[1], e[2]) for e in self.log if e[0] == "state"]
