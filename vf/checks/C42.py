"""C42 — each run's trace span ends once with that run's outcome."""

from __future__ import annotations

import json

from vf import sweepcheck
from vf.oracles.common import landing_info, outcome_class, quiet_logging, spec_json
from vf.sweep import execute, reference_coords
from vf.worker import R

PROPERTY = "C42"
LEVEL = "exploration"
RULE = ("case = one execution, with a recording TracerProvider installed, of a corpus plan (interleaved run keys, "
        "consecutive runs, a run left open for the engine to close, a failing plan, a rejected duplicate open_run, built-in "
        "scans) uninterrupted and with abort / stop / halt / pause(+every decision) / suspension landing after EVERY loop "
        "handle, plus every device operation failing, plus a later document subscriber raising on the 1st/2nd RunStop (alone and with an abort); oracle: the i-th accepted open_run's 'run' span <-> the i-th RunStart; "
        "each such span is ended exactly once and its exit_status attribute equals that run's RunStop exit_status "
        "('abort' == 'aborted'); distinct = (plan, who closed which run, kind, outcome class); non-trivial = >=1 run was "
        "open at the interruption or closed by the engine")
ASSUMPTIONS = ["opentelemetry SDK is not installed: a 60-line recording TracerProvider built on the API classes stands in "
               "for the in-memory exporter", "spans of open_run messages that were rejected (duplicate key) are not runs"]
REQUIRED_COUNTERS = {"executions": 500, "run_spans_checked": 600, "engine_closed_runs": 100, "interleaved_key_runs": 200,
                     "stop_emission_faults": 40}
MANIFEST = {
    "technique": "recording tracer provider + span/RunStop matching oracle over an interruption-coordinate sweep and "
                 "device-fault enumeration",
    "category": "exploration",
    "text": "Every run span created by the real engine is captured; after each execution every opened run must own exactly "
            "one span, ended once, carrying that run's exit status, including interleaved keys and engine-closed runs.",
    "note": "Corpus plans x all coordinates x kinds, device faults, RunStop-emission faults; recording provider replaces the OpenTelemetry SDK.",
    "design_ref": "3 (C42)",
}
PLANS_Q = ["nested", "keys_b", "two_runs", "neverclose", "rw_fail", "scan", "keys_dup", "park", "neverclose2"]
PLANS_T = PLANS_Q + ["keys_a", "keys_c", "custom", "count", "clearcp", "fly"]
SHARD_TIMEOUT = {"quick": 900, "thorough": 3600}
_sink = None


def worker_init(tier, seed):
    global _sink
    quiet_logging()
    from vf.tracing_rec import install

    _sink = install()


def gen_cases(tier, seed):
    cases = sweepcheck.gen_cases(tier, seed, PLANS_Q, PLANS_T, ["abort", "stop", "halt", "pause", "suspend"])
    for p in (PLANS_Q if tier == "quick" else PLANS_T):
        cases.append({"plan": p, "plain": True, "seed": seed})
        cases.append({"plan": p, "faults": True, "seed": seed})
    # a later document subscriber raising on the 1st / 2nd RunStop (e.g. while the ENGINE closes the runs a plan left open)
    for p in ("neverclose", "neverclose2", "keys_b", "two_runs", "park", "nested"):
        cases.append({"plan": p, "docfault": True, "seed": seed})
    return cases


def run_and_judge(spec, ref_nm, base):
    start = len(_sink)
    ex = execute(spec)
    spans = [s for s in _sink[start:] if s.name.endswith(" run")]
    res = judge(ex, spans, ref_nm)
    del _sink[:]
    return res


def judge(ex, spans, ref_nm):
    li = landing_info(ex, ref_nm)
    faults = [e for e in ex.log if e[0] == "fault"]
    key0 = f"{ex.spec['plan']}|" + ("+".join(f"{x['kind']}@{x['command']}" for x in li) or
                                   ("fault:" + "+".join(f"{e[1]}.{e[2]}:{e[3]}" for e in faults) if faults else "uninterrupted"))
    if ex.timeout or ex.stuck or ex.final_state != "idle":
        return [R("inconclusive", key0, detail="engine did not come back idle (judged by C07)")]
    log = ex.log
    end = next((i for i, e in enumerate(log) if (e[0] == "call" and e[1] == "probe") or e[0] == "harness"), len(log))
    starts, stops, closed_by = [], {}, {}
    cur = None
    stop_emission_failed = set()   # runs whose RunStop reached the first subscriber while a later one raised on it
    last_stop = None
    for i, e in enumerate(log[:end]):
        if e[0] == "docfault" and last_stop is not None:
            stop_emission_failed.add(last_stop)
        if e[0] == "doc" and e[1] == "stop":
            last_stop = e[2]["run_start"]
        if e[0] == "msg":
            cur = (i, e[1])
        elif e[0] == "doc" and e[1] == "start":
            starts.append(e[2])
        elif e[0] == "doc" and e[1] == "stop":
            stops[e[2]["run_start"]] = e[2]
            by_plan = cur is not None and cur[1].command == "close_run" and log.stamps[cur[0]][1] == log.stamps[i][1]
            closed_by[e[2]["run_start"]] = "plan" if by_plan else "engine"
    # spans of accepted opens: drop those whose open_run was rejected (no RunStart followed): identified through the
    # marker the corpus puts on its deliberate duplicate
    run_spans = []
    for s in spans:
        try:
            kw = json.loads(s.attrs.get("msg.kwargs", "{}"))
        except Exception:  # noqa: BLE001
            kw = {}
        if kw.get("dup"):
            continue
        run_spans.append(s)
    probe_spans = 0
    problems = []
    counters = {"executions": 1, "run_spans_checked": 0, "engine_closed_runs": sum(1 for v in closed_by.values() if v == "engine"),
                "interleaved_key_runs": 0,
                "stop_emission_faults": int(any(e[0] == "docfault" for e in log[:end]))}
    if len(run_spans) < len(starts):
        problems.append(("run-without-span", f"{len(starts)} runs, {len(run_spans)} run spans"))
    n_open, max_open = 0, 0
    for e in log[:end]:
        if e[0] == "doc" and e[1] == "start":
            n_open += 1
            max_open = max(max_open, n_open)
        elif e[0] == "doc" and e[1] == "stop":
            n_open -= 1
    for k, st in enumerate(starts):
        if k >= len(run_spans):
            break
        sp = run_spans[k]
        counters["run_spans_checked"] += 1
        counters["interleaved_key_runs"] += int(max_open >= 2)
        stop = stops.get(st["uid"])
        who = closed_by.get(st["uid"], "?")
        if sp.ended == 0:
            problems.append((f"span-never-ended:closed-by={who}", f"run #{k} ({st.get('key')}) closed by {who}: span not ended"))
        elif sp.ended > 1:
            problems.append((f"span-ended-{sp.ended}-times", f"run #{k}"))
        elif stop is not None and not (st["uid"] in stop_emission_failed and who == "plan"):
            # (when the emission of a PLAN-issued RunStop failed half-way the close_run message failed: documents and
            #  engine disagree about that run's outcome and only 'ended exactly once' is judged for it)
            got = getattr(sp, "attrs_at_end", sp.attrs).get("exit_status")
            want = stop["exit_status"]
            if got != want and not (want == "abort" and got == "aborted"):
                problems.append((f"span-exit_status-{got}-but-run-{want}:closed-by={who}:concurrent={'y' if max_open >= 2 else 'n'}",
                                 f"run #{k} ({st.get('key')}): span says {got!r}, RunStop says {want!r}"))
    key = f"{key0}|closed={sorted(closed_by.values())}|{outcome_class(ex)}"
    nontrivial = bool(li or faults) or any(v == "engine" for v in closed_by.values()) or max_open >= 2
    if problems:
        out, seen = [], set()
        for kd, detail in problems:
            sig = f"C42:{kd}"
            if sig in seen:
                continue
            seen.add(sig)
            out.append(R("violated", key + "|" + kd, True, sig=sig, detail=f"{key}: {detail}",
                         witness={"spec": spec_json(ex.spec), "landing": li,
                                  "spans": [(s.attrs.get("msg.kwargs"), s.ended, getattr(s, "attrs_at_end", s.attrs).get("exit_status")) for s in run_spans],
                                  "stops": [(st.get("key"), (stops.get(st["uid"]) or {}).get("exit_status"), closed_by.get(st["uid"])) for st in starts]},
                         counters=counters, case={"replay_spec": spec_json(ex.spec), "ref_nm": ref_nm}))
            counters = {}
        return out
    return [R("held", key, nontrivial, counters=counters,
              sample={"plan": ex.spec["plan"], "inj": [i[:3] for i in ex.spec.get("inj", [])],
                      "runs": [(st.get("key"), (stops.get(st["uid"]) or {}).get("exit_status"), closed_by.get(st["uid"])) for st in starts]}
              if max_open >= 2 and li else None)]


def run_case(case):
    if "replay_spec" in case:
        return run_and_judge(case["replay_spec"], case["ref_nm"], None)
    plan = case["plan"]
    ref, coords = reference_coords({"plan": plan})
    del _sink[:]
    nm = len(ref.h.msgs())
    out = []
    if case.get("plain"):
        return run_and_judge({"plan": plan, "decisions": []}, nm, None)
    if case.get("faults"):
        ops, counts = [], {}
        for e in ref.log:
            if e[0] == "dev" and e[2] in ("set", "trigger", "read", "stage", "kickoff", "complete"):
                k = (e[1], e[2])
                counts[k] = counts.get(k, 0) + 1
                ops.append((e[1], e[2], counts[k]))
        for (dev, op, n) in ops:
            out += run_and_judge({"plan": plan, "faults": [[[dev, op, n], "raise"]], "decisions": []}, nm, None)
        return out
    if case.get("docfault"):
        for nth in (1, 2):
            # (also on the RunStart itself: the run is open, gets a RunStop, and must own a span like any other)
            out += run_and_judge({"plan": plan, "doc_fault": ["start", nth], "decisions": []}, nm, None)
            out += run_and_judge({"plan": plan, "doc_fault": ["stop", nth], "decisions": []}, nm, None)
            for c in coords[::5]:
                out += run_and_judge({"plan": plan, "doc_fault": ["stop", nth], "inj": [[c[0], c[1], "abort"]], "decisions": []}, nm, None)
        return out
    s, n = case["slice"]
    kind = case["kind"]
    for c in coords[s::n]:
        base = {"plan": plan, "inj": [[c[0], c[1], kind]]}
        res = run_and_judge(dict(base, decisions=["resume", "resume"]), nm, None)
        out += res
        if kind == "pause":
            for dec in ("abort", "stop", "halt"):
                out += run_and_judge(dict(base, decisions=[dec]), nm, None)
    return out
