"""C21 — plan_mutator inserts head/tail messages exactly as documented.

Monitor: differential of the real plan_mutator against a yield-from based reference of the documented contract,
over generated host programs x per-message (head, tail) patterns x consumer scripts, plus a direct oracle on
the processor's call log (called exactly once per host message, never with an inserted message).
"""

from __future__ import annotations

from vf.common import chunked, rng_for
from vf.gendriver import (Program, all_scripts, deviation_scripts, drive, enumerate_programs, label, max_yields,
                          random_program)
from vf.worker import R

PROPERTY = "C21"
LEVEL = "exploration"
RULE = ("case = (host program AST, pattern table assigning each host message one of (None,None)/(head,None)/(None,tail)/"
        "(head,tail)/(head re-emitting the original message[,tail]) with head/tail drawn from 7 inserted programs {y, y;y, y;raise, raise, empty, try:y finally:pass, try:y;y except:raise Other}, "
        "consumer script); hosts: all ASTs <=4 nodes (quick) / <=5 (thorough) + random to 10; 4 pattern tables per host; "
        "scripts: all of length <=2 + single deviations; distinct = (host, table); non-trivial = host yields and the table "
        "inserts at least one head or tail on a message that is reached")
ASSUMPTIONS = ["'not re-processed' is judged as: no message object is offered to the processor twice (the original message "
               "re-emitted by a head is not processed again) and every host message exactly once; brand-new messages of a "
               "head/tail ARE offered to the processor by the implementation and every built-in wrapper copes with that",
               "inserted plans do not swallow exceptions thrown at them (the value then delivered to the host is not "
               "specified by the documentation)", "reference = ref_mutator in this module (documented contract)"]
REQUIRED_COUNTERS = {"drives": 20000, "heads_run": 2000, "tails_run": 2000, "exceptions_in_inserted": 500,
                     "processor_calls_checked": 5000}
MANIFEST = {
    "technique": "differential against a yield-from reference of the documented head/tail contract + processor call-log "
                 "oracle, exhaustive small hosts x pattern tables x consumer scripts",
    "category": "exploration",
    "text": "Every small host program with seeded head/tail insertion tables is driven by send/throw/close scripts under "
            "the real plan_mutator and under a 40-line reference; message order, responses seen by host/head/tail, "
            "exceptions and close behaviour must agree.",
    "note": "Exhaustive only up to the size bound; the reference encodes the docstring.",
    "design_ref": "5 (C21)",
}

# no inserted plan yields inside a finally: what happens when such a plan is closed is Python's "generator ignored
# GeneratorExit" territory, which the documented contract does not cover
INSERTED = [["y"], ["seq", ["y"], ["y"]], ["seq", ["y"], ["raise"]], ["raise"], ["seq"], ["tf", ["y"], ["seq"]],
            ["te", ["seq", ["y"], ["y"]], "new", ["seq"]]]  # the last one translates an exception thrown at it into another
PATTERNS = ["--", "H-", "-T", "HT", "O-", "OT"]


def gen_cases(tier, seed):
    top = 4 if tier == "quick" else 5
    progs = []
    for s in range(1, top + 1):
        progs += [p for p in enumerate_programs(s) if max_yields(p) > 0]
    rng = rng_for(seed, "C21")
    for _ in range(150 if tier == "quick" else 2500):
        progs.append(random_program(rng, rng.randint(5, 10)))
    return [{"progs": ch, "seed": seed, "base": i} for i, ch in enumerate(chunked(progs, 15 if tier == "quick" else 40))]


def run_inserted(gen):
    """Run an inserted plan: its messages pass through unprocessed; returns the response to its last message."""
    last = None
    try:
        m = gen.send(None)
    except StopIteration:
        return None
    while True:
        try:
            last = yield m
        except GeneratorExit:
            gen.close()
            raise
        except Exception as e:
            try:
                m = gen.throw(e)
            except StopIteration:
                return last
        else:
            try:
                m = gen.send(last)
            except StopIteration:
                return last


def ref_mutator(plan, proc):
    from bluesky.utils import single_gen

    try:
        msg = plan.send(None)
    except StopIteration as s:
        return s.value
    while True:
        try:
            head, tail = proc(msg)
            if head is None and tail is None:
                resp = yield msg
            else:
                if head is None:
                    head = single_gen(msg)
                try:
                    resp = yield from run_inserted(head)
                except GeneratorExit:
                    raise
                if tail is not None:
                    yield from run_inserted(tail)
        except GeneratorExit:
            plan.close()
            raise
        except Exception as e:
            try:
                msg = plan.throw(e)
            except StopIteration as s:
                return s.value
        else:
            try:
                msg = plan.send(resp)
            except StopIteration as s:
                return s.value


def _tag(msg):
    return (msg.command, msg.args, (msg.kwargs.get("pid") or "")[:1])


def scripts_for(n):
    seen, out = set(), []
    for L in range(0, 3):
        for s in all_scripts(L):
            if tuple(s) not in seen:
                seen.add(tuple(s))
                out.append(s)
    for s in deviation_scripts(min(n, 8)):
        if tuple(s) not in seen:
            seen.add(tuple(s))
            out.append(s)
    return out


def _norm(log):
    """-> (events before the first close, per-program events from the first close on).

    The order in which suspended plans are closed is not documented, so what happens from the first close on is
    compared per program, and only when the close finished cleanly: a plan that yields or raises while being closed
    leaves the others to the garbage collector."""
    before, after, seen_close = [], {}, False
    for x in log:
        if x[1] == "closed_at":
            seen_close = True
        if seen_close:
            after.setdefault(x[0], []).append(tuple(x[1:]))
        else:
            before.append(tuple(x))
    return before, after


def make_side(host_ast, table, real):
    from bluesky.preprocessors import plan_mutator

    log, ctxs, calls = [], [], []
    host = Program(host_ast, "B", log=log)
    ctxs.append(host.ctx)
    n = [0]

    def proc(msg):
        calls.append(msg)
        pid = msg.kwargs.get("pid", "")
        if not pid.startswith("B"):
            return None, None
        pat, hi, ti = table[msg.args[0] % len(table)]
        head = tail = None
        if pat[0] in "HO":
            n[0] += 1
            p = Program(label(INSERTED[hi]), f"H{n[0]}", log=log)
            ctxs.append(p.ctx)
            head = p.gen
            if pat[0] == "O":
                # the realistic shape: extra messages, then the original message re-emitted as head's last message
                def with_original(g=p.gen, m=msg):
                    yield from g
                    return (yield m)

                head = with_original()
        if pat[1] == "T":
            n[0] += 1
            p = Program(label(INSERTED[ti]), f"T{n[0]}", log=log)
            ctxs.append(p.ctx)
            tail = p.gen
        return head, tail

    g = plan_mutator(host.gen, proc) if real else ref_mutator(host.gen, proc)
    return g, log, ctxs, calls, host


def run_case(case):
    out = []
    for pi, ast0 in enumerate(case["progs"]):
        host_ast = label(ast0)
        k = max_yields(host_ast)
        for ti in range(4):
            rng = rng_for(case["seed"], "C21tab", repr(ast0), ti)
            table = [(rng.choice(PATTERNS[1:] if j == 0 else PATTERNS), rng.randrange(len(INSERTED)),
                      rng.randrange(len(INSERTED))) for j in range(rng.randint(1, 4))]
            counters = {"drives": 0, "heads_run": 0, "tails_run": 0, "exceptions_in_inserted": 0,
                        "processor_calls_checked": 0}
            problem = None
            inserted_any = False
            for script in scripts_for(3 * k + 2):
                res = []
                for real in (True, False):
                    g, log, ctxs, calls, host = make_side(host_ast, table, real)
                    tr, oc, msgs = drive(g, script, ctxs, _tag)
                    res.append((tr, oc, _norm(log), list(calls), list(host.ctx["msgs"])))
                    counters["drives"] += 1
                    del g
                (tr, oc, lg, calls, hmsgs), (tr2, oc2, lg2, _, _) = res
                heads = sum(1 for e in lg[0] if e[0].startswith("H") and e[1] in ("yield", "raise"))
                tails = sum(1 for e in lg[0] if e[0].startswith("T") and e[1] in ("yield", "raise"))
                counters["heads_run"] += heads
                counters["tails_run"] += tails
                counters["exceptions_in_inserted"] += sum(1 for e in lg[0] if e[0][0] in "HT" and e[1] in ("thrown_at", "raise"))
                inserted_any = inserted_any or heads + tails > 0
                if tr != tr2:
                    problem = ("messages-differ", f"real {tr} vs documented {tr2}", script)
                elif oc != oc2:
                    ka = oc[0] if isinstance(oc[0], str) else "close-raised"
                    kb = oc2[0] if isinstance(oc2[0], str) else "close-raised"
                    problem = (f"outcome-differs:{kb}->{ka}", f"real {oc} vs documented {oc2}", script)
                elif lg[0] == lg2[0] and lg[1] != lg2[1] and oc == ("closed",):
                    problem = ("closed-plans-differ", f"real {lg[1]} vs documented {lg2[1]}", script)
                elif lg[0] != lg2[0]:
                    lg, lg2 = lg[0], lg2[0]
                    d = next(((x, y) for x, y in zip(lg, lg2) if x != y), (lg[len(lg2):], lg2[len(lg):]))
                    who = d[0][0][0] if d[0] and isinstance(d[0][0], str) else "?"
                    problem = (f"events-differ:{ {'B': 'host', 'H': 'head', 'T': 'tail'}.get(who, who)}",
                               f"real {d[0]} vs documented {d[1]}", script)
                else:
                    counters["processor_calls_checked"] += len(calls)
                    hcalls = [m for m in calls if m.kwargs.get("pid", "").startswith("B")]
                    n_after = sum(1 for e in lg[1].get("B", []) if e[0] == "yield")
                    if n_after:
                        hmsgs = hmsgs[:-n_after]  # messages a host yields while being closed never reach anybody
                    if len({id(m) for m in calls}) != len(calls):
                        problem = ("message-processed-twice", f"processor saw {[_tag(m) for m in calls]}", script)
                    elif len(hcalls) != len(hmsgs) or any(m is not h for m, h in zip(hcalls, hmsgs)):
                        problem = ("processor-calls-not-once-per-host-message",
                                   f"calls {[_tag(m) for m in hcalls]} host {[_tag(m) for m in hmsgs]}", script)
                if problem:
                    break
            key = f"{ast0!r}|{table!r}"
            if problem:
                out.append(R("violated", key, True, sig=f"C21:{problem[0]}",
                             detail=f"host {ast0} table {table} script {problem[2]}: {problem[1]}"[:800],
                             witness={"host": ast0, "table": table, "script": problem[2], "difference": problem[1][:600]},
                             counters=counters, case={"progs": [ast0], "seed": case["seed"], "base": 0}))
            else:
                out.append(R("held", key, k > 0 and inserted_any, counters=counters,
                             sample={"host": ast0, "table": table} if k >= 2 and ti == 0 else None))
    return out
