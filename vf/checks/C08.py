"""C08 — RunEngineInterrupted means paused unless the plan was terminated."""

from __future__ import annotations

from bluesky.utils import RunEngineInterrupted

from vf import sweepcheck
from vf.oracles.common import landing_info, outcome_class, requests, spec_json
from vf.oracles.docs import check_stream
from vf.worker import R

PROPERTY = "C08"
LEVEL = "exploration"
RULE = ("case = one execution of a corpus plan with a pause / deferred pause / suspension (and, for the terminated clause, "
        "abort / stop / halt) landing after EVERY loop handle including those after the plan's last message; oracle: "
        "RunEngineInterrupted from RE(...) or resume() => state 'paused' and the following resume() is accepted, unless an "
        "abort/stop/halt was accepted or the interruption fell in a non-resumable section, then 'idle' with every run "
        "closed; normal return => the plan's completion marker was reached and the state is 'idle'; distinct = (plan, "
        "landing region, command at landing, kind, outcome class); non-trivial = the request was accepted")
ASSUMPTIONS = ["'non-resumable section' = any point after a clear_checkpoint message of the same call (the engine stays "
               "un-resumable for the rest of the call; both outcomes are accepted after a later checkpoint)",
               "completion marker: the plan's own ('plan','body-complete') log entry for hand-written plans, the same "
               "number of processed 'save' messages as the uninterrupted run for built-in plans"]
REQUIRED_COUNTERS = {"executions": 500, "interrupted_calls_judged": 300, "normal_returns_judged": 100,
                     "tail_landings": 30, "terminated_cases": 100}
MANIFEST = {
    "technique": "public-call postcondition oracle (exception x state x resumability) over an exhaustive pause/terminate "
                 "coordinate sweep including the post-plan tail",
    "category": "exploration",
    "text": "Pause, deferred pause, suspension and termination requests land after every loop handle; every "
            "RunEngineInterrupted is checked against the engine state at that moment and the next resume(), every "
            "normal return against plan completion.",
    "note": "Corpus plans x all coordinates; state sampled from state_hook entries preceding the call's return.",
    "design_ref": "3 (C08)",
}
PLANS_Q = ["scan", "custom", "neverclose", "norun", "clearcp", "two_runs", "count"]
PLANS_T = PLANS_Q + ["grid", "nested", "fly", "list_scan", "rel_scan"]
SHARD_TIMEOUT = {"quick": 900, "thorough": 3600}
worker_init = sweepcheck.worker_init


def gen_cases(tier, seed):
    return sweepcheck.gen_cases(tier, seed, PLANS_Q, PLANS_T, ["pause", "defer", "suspend", "abort", "stop", "halt"])


def judge(ex, ref, case):
    nm = len(ref.h.msgs())
    li = landing_info(ex, nm)
    key0 = f"{ex.spec['plan']}|" + ("+".join(f"{x['kind']}@{x['command']}/{x['region']}" for x in li) or "none")
    if ex.timeout or ex.stuck:
        return [R("inconclusive", key0, detail="engine did not come back (judged by C07)")]
    if not li:
        return [R("skip", key0, False)]
    reqs = requests(ex)
    accepted = [k for k, st, _ in reqs if st == "accepted"]
    kind = li[0]["kind"]
    # walk the log: state at each call return, terminated flag, non-resumable flag
    problems = []
    state = "idle"
    terminated = False
    nonresumable = False
    counters = {"executions": 1, "interrupted_calls_judged": 0, "normal_returns_judged": 0,
                "tail_landings": int(li[0]["region"] == "tail"), "terminated_cases": 0}
    ref_saves = sum(1 for m in ref.h.msgs() if m.command == "save")
    saves = 0
    complete = False
    last_interrupted_idx = None
    log = ex.log
    for i, e in enumerate(log):
        if e[0] == "state":
            state = e[1]
        elif e[0] == "msg":
            if e[1].command == "clear_checkpoint":
                nonresumable = True
            elif e[1].command == "save":
                saves += 1
        elif e[0] == "plan" and e[1] == "body-complete":
            complete = True
        elif e[0] == "req" and e[1] in ("abort", "stop", "halt") and e[2] == "accepted":
            terminated = True
        elif e[0] == "call" and e[1] in ("abort", "stop", "halt"):
            terminated = True
        elif e[0] == "call" and e[1] == "probe":
            break
        elif e[0] == "harness":
            break
        elif e[0] == "exc" and e[1] in ("RE", "resume") and isinstance(e[2], RunEngineInterrupted):
            counters["interrupted_calls_judged"] += 1
            if terminated:
                counters["terminated_cases"] += 1
                if state != "idle":
                    problems.append(("terminated-but-not-idle", f"{e[1]} raised RunEngineInterrupted after termination, state {state}"))
            elif nonresumable:
                if state not in ("idle", "paused"):
                    problems.append(("non-resumable-interruption-state", f"state {state}"))
            else:
                if state != "paused":
                    problems.append((f"interrupted-but-{state}", f"{e[1]} raised RunEngineInterrupted with no termination "
                                     f"request accepted; state is {state}, nothing to resume"))
                else:
                    # the next call in the history is resume(): it must be accepted
                    nxt = next((x for x in log[i + 1:] if x[0] in ("ret", "exc") and x[1] in ("resume", "abort", "stop", "halt")), None)
                    if nxt is not None and nxt[1] == "resume" and nxt[0] == "exc" and not isinstance(nxt[2], RunEngineInterrupted):
                        from bluesky.run_engine import TransitionError

                        if isinstance(nxt[2], TransitionError):
                            problems.append(("paused-but-resume-rejected", f"resume raised {nxt[2]!r}"))
        elif e[0] == "ret" and e[1] in ("RE", "resume"):
            counters["normal_returns_judged"] += 1
            if state != "idle":
                problems.append((f"returned-normally-but-{state}", f"{e[1]} returned with state {state}"))
            done = complete or (ex.spec["plan"] in ("scan", "count", "grid", "list_scan", "rel_scan", "fly", "rw_fail")
                                and saves >= ref_saves)
            if not done and ex.spec["plan"] not in ("rw_fail",):
                problems.append(("returned-normally-but-plan-incomplete", f"{e[1]} returned; saves {saves}/{ref_saves}, marker {complete}"))
    if terminated or (nonresumable and ex.final_state == "idle"):
        p2, _, _ = check_stream(ex.h.docs(), engine_idle=ex.final_state == "idle", validate=False)
        for kd, dt in p2:
            if kd == "run-never-stopped":
                problems.append(("terminated-with-open-run", dt))
    key = f"{key0}|{outcome_class(ex)}"
    if problems:
        out, seen = [], set()
        for kd, detail in problems:
            sig = f"C08:{kd}:{kind}:{li[0]['region']}"
            if sig in seen:
                continue
            seen.add(sig)
            out.append(R("violated", key + "|" + kd, True, sig=sig, detail=f"{key}: {detail}",
                         witness={"spec": spec_json(ex.spec), "landing": li, "calls": outcome_class(ex),
                                  "requests": [(a, b) for a, b, _ in reqs],
                                  "states": [(e[1], e[2]) for e in log if e[0] == "state"][-10:]},
                         counters=counters, case={"replay_spec": spec_json(ex.spec)}))
            counters = {}
        return out
    return [R("held", key, bool(accepted) or kind == "suspend", counters=counters,
              sample={"plan": ex.spec["plan"], "inj": ex.spec.get("inj"), "landing": li, "calls": outcome_class(ex)}
              if li[0]["region"] == "tail" and accepted else None)]


def run_case(case):
    return sweepcheck.run_case(case, judge)
