"""C39 — a LiveDispatcher's re-emitted stream is a valid run."""

from __future__ import annotations

from vf.common import rng_for
from vf.oracles.docs import check_stream
from vf.worker import R

PROPERTY = "C39"
LEVEL = "exploration"
RULE = ("case = 1-3 consecutive generated runs through ONE dispatcher instance, each judged on its own (event_model.compose_run: 1-3 streams with different data keys, 0-6 events each, seeded "
        "interleaving) fed through a LiveDispatcher subclass in {pass-through base class, transforming (adds a derived "
        "key), stream-splitting (routes events to process_event(stream_name=...) by parity), id_args-splitting}; oracle on "
        "the documents a subscriber of the LiveDispatcher receives: the C01 stream oracle (one start/stop, references, "
        "schema, unique uids), per emitted stream (descriptor name) the event seq_nums are exactly 1..N in order, and the "
        "re-emitted RunStop's num_events gives N for every stream; distinct = (#streams, events per stream, subclass kind)")
ASSUMPTIONS = ["a 'stream' of the re-emitted run is identified by the name of the re-emitted descriptor"]
REQUIRED_COUNTERS = {"runs": 300, "events_reemitted": 2000, "multi_stream_runs": 150, "later_runs_of_one_dispatcher": 100}
MANIFEST = {
    "technique": "offline document-stream oracle (C01 checker + per-stream numbering + num_events) over the output of real "
                 "LiveDispatcher subclasses fed with generated runs",
    "category": "exploration",
    "text": "Generated multi-stream runs are pushed through pass-through, transforming and splitting LiveDispatcher "
            "subclasses; the re-emitted documents are checked for validity, 1..N numbering per stream and matching "
            "num_events.",
    "note": "Sampled runs; four subclass kinds.",
    "design_ref": "7 (C39)",
}
KINDS = ["pass", "transform", "split-stream", "split-idargs"]


def gen_cases(tier, seed):
    n = 400 if tier == "quick" else 6000
    return [{"start": s, "count": 25, "seed": seed} for s in range(0, n, 25)]


def make_dispatcher(kind):
    from bluesky.callbacks.stream import LiveDispatcher

    if kind == "pass":
        return LiveDispatcher()

    class T(LiveDispatcher):
        def event(self, doc, **kwargs):
            d = dict(doc)
            if kind == "transform":
                d["data"] = dict(doc["data"], derived=sum(v for v in doc["data"].values() if isinstance(v, (int, float))))
                return super().event(d)
            if kind == "split-stream":
                return super().event(d, stream_name="even" if doc["seq_num"] % 2 == 0 else "odd")
            return super().event(d, id_args=(doc["seq_num"] % 2,))

    return T()


def run_case(case):
    from event_model import compose_run

    out = []
    for i in range(case["start"], case["start"] + case["count"]):
        rng = rng_for(case["seed"], "C39", i)
        sub = {"start": i, "count": 1, "seed": case["seed"]}
        kind = KINDS[i % len(KINDS)]
        ld = make_dispatcher(kind)
        all_got = []
        ld.subscribe(lambda name, doc: all_got.append((name, doc)))
        nruns = rng.choice([1, 1, 2, 3])     # the SAME dispatcher instance sees consecutive runs; each is judged on its own
        problems = []
        counters = {"runs": 0, "events_reemitted": 0, "multi_stream_runs": 0, "later_runs_of_one_dispatcher": 0}
        nstreams, counts, order = 0, {}, []
        for rno in range(nruns):
            if problems:
                break
            mark = len(all_got)
            run = compose_run(metadata={"purpose": "c39"})
            nstreams = rng.randint(1, 3)
            names = rng.sample(["primary", "baseline", "aux"], nstreams) if rno else ["primary", "baseline", "aux"][:nstreams]
            try:
                ld("start", run.start_doc)
                descs = {}
                for k, nm in enumerate(names):
                    b = run.compose_descriptor(name=nm, data_keys={f"{nm}_x": {"dtype": "number", "shape": [], "source": "s"},
                                                                   f"{nm}_y": {"dtype": "number", "shape": [], "source": "s"}})
                    descs[nm] = b
                    ld("descriptor", b.descriptor_doc)
                counts = {nm: rng.randint(0, 6) for nm in names}
                order = [nm for nm in names for _ in range(counts[nm])]
                rng.shuffle(order)
                for nm in order:
                    ev = descs[nm].compose_event(data={f"{nm}_x": rng.randint(0, 9), f"{nm}_y": 1.5},
                                                 timestamps={f"{nm}_x": 1.0, f"{nm}_y": 1.0})
                    ld("event", ev)
                ld("stop", run.compose_stop())
            except Exception as e:  # noqa: BLE001
                problems.append((f"raises:{type(e).__name__}", repr(e)[:200]))
            got = all_got[mark:]
            nev = sum(1 for n, _ in got if n == "event")
            counters["runs"] += 1
            counters["events_reemitted"] += nev
            counters["multi_stream_runs"] += int(nstreams >= 2)
            counters["later_runs_of_one_dispatcher"] += int(rno > 0)
            tag = "" if rno == 0 else ":later-run"
            if not problems:
                p1, _, _ = check_stream([(n, d) for n, d in got], engine_idle=True, validate=True)
                problems += [(f"stream:{k}{tag}", d) for k, d in p1]
                desc_name = {d["uid"]: d.get("name") for n, d in got if n == "descriptor"}
                seqs = {}
                for n, d in got:
                    if n == "event":
                        seqs.setdefault(desc_name.get(d["descriptor"]), []).append(d["seq_num"])
                stop = next((d for n, d in got if n == "stop"), None)
                for nm, sq in seqs.items():
                    if sq != list(range(1, len(sq) + 1)):
                        problems.append((f"seq_nums-not-1..N:{'multi' if nstreams > 1 else 'single'}-stream{tag}", f"run {rno} stream {nm}: {sq}"))
                if stop is not None:
                    ne = stop.get("num_events", {})
                    exp = {nm: len(sq) for nm, sq in seqs.items()}
                    for nm, n_ in exp.items():
                        if ne.get(nm) != n_:
                            problems.append((f"num_events-wrong{tag}", f"run {rno} stream {nm}: num_events {ne.get(nm)} but {n_} events emitted; full {ne}"))
                            break
                    extra = {nm: v for nm, v in ne.items() if nm not in exp and v}
                    if extra:
                        problems.append((f"num_events-counts-events-of-another-run{tag}", f"run {rno}: {extra}"))
                # nothing lost
                if nev != len(order):
                    problems.append((f"events-lost-or-duplicated{tag}", f"{nev} re-emitted, {len(order)} received"))
        got = all_got
        key = f"{kind}|streams={nstreams}|counts={sorted(counts.values()) if not problems or 'counts' in dir() else '?'}"
        if problems:
            seen = set()
            for kd, detail in problems:
                sig = f"C39:{kd}:{kind}"
                if sig in seen:
                    continue
                seen.add(sig)
                out.append(R("violated", key + "|" + kd, True, sig=sig, detail=detail, witness={"kind": kind, "streams": names},
                             counters=counters, case=sub))
                counters = {}
        else:
            out.append(R("held", key, len(order) >= 2, counters=counters,
                         sample={"kind": kind, "streams": counts, "emitted": [(n, d.get("seq_num")) for n, d in got][:20]}
                         if nstreams >= 2 and len(order) >= 4 else None))
    return out
