"""C28 — count and repeat run the plan exactly num times with the right delays."""

from __future__ import annotations

import itertools

from vf.common import rng_for
from vf.worker import R

PROPERTY = "C28"
LEVEL = "exploration"
RULE = ("case = one drive of plan_stubs.repeat (or plans.count) under a virtual time.time patched into bluesky.plan_stubs: "
        "num in {0..6, None}, delay kind in {scalar 0, scalar d, list, tuple, generator (unsized), list with None entries} "
        "with lengths num-2..num+1, per-repetition durations shorter / equal / longer than the delay; the consumer sends "
        "responses, advances the virtual clock by the scripted duration of each inner message and by d on each sleep, and "
        "closes the plan after K repetitions when num is None; oracle: inner plan instantiated and run exactly num times, "
        "each preceded by a checkpoint, a sleep message appears iff delay_i - elapsed_i > 0 with exactly that "
        "value, sized iterables shorter than num-1 raise ValueError before any repetition, unsized ones after exactly "
        "len+1 repetitions; distinct = (entry point, num class, delay kind, length relation, duration pattern)")
ASSUMPTIONS = ["time is virtual: bluesky.plan_stubs.time is replaced by a fake module object for the duration of a drive",
               "a delay consumed after the last repetition (scalar / long iterables) is slept like any other (positive remainder)"]
REQUIRED_COUNTERS = {"drives": 1500, "repetitions_checked": 3000, "sleeps_checked": 1000, "valueerrors_expected": 100,
                     "count_drives": 100, "num_none_drives": 50}
MANIFEST = {
    "technique": "trace oracle on the real repeat/count generators driven under virtual time (message sequence, sleep "
                 "arguments, ValueError timing) over seeded num/delay/duration classes",
    "category": "exploration",
    "text": "repeat and count are driven message by message with a virtual clock; number of repetitions, checkpoints, "
            "sleep arguments and the ValueError cases are compared with the documented behaviour.",
    "note": "Pure-generator level; RunEngine not involved (count is additionally run on the engine by other checks).",
    "design_ref": "5 (C28)",
}


class FakeTime:
    def __init__(self):
        self.now = 1000.0

    def time(self):
        return self.now

    def sleep(self, d):
        self.now += d


def gen_cases(tier, seed):
    n = 2400 if tier == "quick" else 30000
    return [{"start": s, "count": 100, "seed": seed} for s in range(0, n, 100)]


def make_case(rng, i):
    entry = "count" if i % 7 == 0 else "repeat"
    num = rng.choice([0, 1, 2, 3, 4, 6, None]) if entry == "repeat" else rng.choice([1, 2, 3, 5, None])
    kind = rng.choice(["scalar0", "scalar", "list", "tuple", "gen", "list-none"])
    base = rng.choice([0.5, 1.0, 2.0])
    n_eff = num if num is not None else rng.choice([2, 4])
    length = None
    if kind in ("list", "tuple", "gen", "list-none"):
        length = max(0, n_eff - 1 + rng.choice([-2, -1, 0, 0, 1, 2]))
    durs = [rng.choice([0.0, 0.25, base, base + 0.5, 3.0]) for _ in range(12)]
    inner_len = rng.choice([1, 2, 3])
    return {"entry": entry, "num": num, "kind": kind, "base": base, "length": length, "durs": durs, "inner_len": inner_len,
            "close_after": n_eff if num is None else None}


def delays_of(c):
    k, L, b = c["kind"], c["length"], c["base"]
    if k == "scalar0":
        return 0.0, None, "scalar"
    if k == "scalar":
        return b, None, "scalar"
    vals = [b + 0.25 * j for j in range(L)]
    if k == "list-none":
        vals = [None if j % 2 else v for j, v in enumerate(vals)]
        return list(vals), vals, "sized"
    if k == "list":
        return list(vals), vals, "sized"
    if k == "tuple":
        return tuple(vals), vals, "sized"
    return (v for v in vals), vals, "unsized"


def run_case(case):
    import bluesky.plan_stubs as bps
    import bluesky.plans as bp
    from bluesky.utils import Msg

    from vf.devices import Det

    out = []
    for i in range(case["start"], case["start"] + case["count"]):
        rng = rng_for(case["seed"], "C28", i)
        c = make_case(rng, i)
        sub = {"start": i, "count": 1, "seed": case["seed"]}
        delay_obj, vals, sized = delays_of(c)
        num = c["num"]
        ft = FakeTime()
        instantiated = [0]

        def inner():
            instantiated[0] += 1
            rep = instantiated[0] - 1
            for j in range(c["inner_len"]):
                yield Msg("null", None, "inner", rep, j)

        old_time = bps.time
        bps.time = ft
        trace = []
        outcome = None
        try:
            if c["entry"] == "repeat":
                g = bps.repeat(inner, num=num, delay=delay_obj)
            else:
                det = Det("d1", delay=None)
                g = bp.count([det], num=num, delay=delay_obj)
            reps_done = 0
            try:
                msg = g.send(None)
                while True:
                    trace.append((msg.command, msg.args, ft.now))
                    if msg.command == "sleep":
                        ft.now += msg.args[0]
                        resp = None
                    elif msg.command == "null" and msg.args and msg.args[0] == "inner":
                        rep, j = msg.args[1], msg.args[2]
                        if j == c["inner_len"] - 1:
                            ft.now += c["durs"][rep % len(c["durs"])]
                            reps_done += 1
                        resp = None
                    elif msg.command == "save":
                        ft.now += c["durs"][reps_done % len(c["durs"])]
                        reps_done += 1
                        resp = None
                    elif msg.command == "open_run":
                        resp = "uid"
                    elif msg.command in ("trigger",):
                        resp = None
                    elif msg.command == "read":
                        resp = msg.obj.read()
                    elif msg.command in ("stage", "unstage"):
                        resp = [msg.obj]
                    else:
                        resp = None
                    if len(trace) > 6000:
                        # a plan that should have ended long ago (the largest legitimate case is a few hundred messages)
                        g.close()
                        outcome = ("runaway", len(trace))
                        break
                    if c["close_after"] is not None and reps_done >= c["close_after"] and msg.command in ("null", "save"):
                        g.close()
                        outcome = ("closed", None)
                        break
                    msg = g.send(resp)
            except StopIteration as s:
                outcome = ("return", s.value)
            except ValueError as e:
                outcome = ("ValueError", str(e))
            except Exception as e:  # noqa: BLE001
                outcome = ("raise", repr(e))
        finally:
            bps.time = old_time
        # ---- expectations -------------------------------------------------------------------------
        problems = []
        n_eff = num if num is not None else c["close_after"]
        counters = {"drives": 1, "repetitions_checked": 0, "sleeps_checked": 0, "valueerrors_expected": 0,
                    "count_drives": int(c["entry"] == "count"), "num_none_drives": int(num is None)}
        # how many repetitions may run
        if sized == "scalar":
            exp_reps, exp_err = n_eff, False
        else:
            L = len(vals)
            if num is None:
                exp_reps, exp_err = min(n_eff, L + 1), False
            elif sized == "sized" and num and num - 1 > L:
                exp_reps, exp_err = 0, True
            elif num - 1 > L:
                exp_reps, exp_err = L + 1, True
            else:
                exp_reps, exp_err = num, False
        counters["valueerrors_expected"] = int(exp_err)
        if c["entry"] == "repeat":
            reps = sorted({t[1][1] for t in trace if t[0] == "null" and t[1][:1] == ("inner",)})
            n_reps = len(reps)
            if instantiated[0] != n_reps and not (outcome and outcome[0] == "closed"):
                problems.append(("inner-plan-instantiated-but-not-run", f"{instantiated[0]} vs {n_reps}"))
        else:
            n_reps = sum(1 for t in trace if t[0] == "save")
        if n_reps != exp_reps:
            problems.append((f"repetitions-{'more' if n_reps > exp_reps else 'fewer'}-than-expected",
                             f"{n_reps} repetitions, expected {exp_reps} (num={num}, delays={c['kind']} len={c['length']})"))
        if exp_err and (outcome is None or outcome[0] != "ValueError"):
            problems.append(("ValueError-not-raised", f"outcome {outcome}"))
        if outcome and outcome[0] == "runaway":
            problems.append(("plan-did-not-terminate", f"more than {outcome[1]} messages for num={num}"))
        if not exp_err and outcome and outcome[0] in ("ValueError", "raise"):
            problems.append((f"unexpected-{outcome[0]}", f"{outcome[1]}"))
        # checkpoints and sleeps per repetition
        if not problems:
            idx = 0
            cmds = [t for t in trace if t[0] in ("checkpoint", "sleep", "null", "save", "create")]
            rep = -1
            t_start = None
            seq = []
            for t in trace:
                if t[0] == "checkpoint":
                    seq.append(("cp", t[2]))
                elif (c["entry"] == "repeat" and t[0] == "null" and t[1][:1] == ("inner",) and t[1][2] == 0) or \
                        (c["entry"] == "count" and t[0] == "create"):
                    seq.append(("rep", t[2]))
                elif t[0] == "sleep":
                    seq.append(("sleep", t[2], t[1][0]))
            # every rep preceded by exactly one checkpoint since the previous rep
            last = None
            cps = 0
            rep_i = 0
            rep_start = None
            for s in seq:
                if s[0] == "cp":
                    cps += 1
                    cp_time = s[1]
                elif s[0] == "rep":
                    counters["repetitions_checked"] += 1
                    if cps < 1:
                        problems.append(("no-checkpoint-before-repetition", f"repetition {rep_i}"))
                    cps = 0
                    rep_start = cp_time if "cp_time" in dir() else s[1]
                    rep_i += 1
                elif s[0] == "sleep":
                    counters["sleeps_checked"] += 1
            # sleep arguments: replay the clock
            clock = 1000.0
            ri = 0
            k = 0
            exp_trace_sleeps = []
            for r in range(n_reps):
                t0 = clock
                clock += c["durs"][r % len(c["durs"])]
                if sized == "scalar":
                    d = delay_obj
                else:
                    if r >= len(vals):
                        break
                    d = vals[r]
                if d is not None:
                    rem = d - (clock - t0)
                    if rem > 0:
                        exp_trace_sleeps.append((r, rem))
                        clock += rem
            got_sleeps = [t[1][0] for t in trace if t[0] == "sleep"]
            if outcome and outcome[0] == "closed":
                exp_cmp = [v for _, v in exp_trace_sleeps][:len(got_sleeps)]
            else:
                exp_cmp = [v for _, v in exp_trace_sleeps]
            if len(got_sleeps) != len(exp_cmp) or any(abs(a - b) > 1e-9 for a, b in zip(got_sleeps, exp_cmp)):
                problems.append(("sleep-arguments-differ", f"sleeps {got_sleeps} expected {exp_cmp}"))
        key = f"{c['entry']}|num={'None' if num is None else min(num, 3)}|{c['kind']}|rel={None if c['length'] is None else c['length'] - (n_eff - 1)}|inner={c['inner_len']}"
        if problems:
            seen = set()
            for kd, detail in problems:
                sig = f"C28:{c['entry']}:{kd}"
                if sig in seen:
                    continue
                seen.add(sig)
                out.append(R("violated", key + "|" + kd, True, sig=sig, detail=f"{key}: {detail}",
                             witness={"case": {k: v for k, v in c.items()}, "outcome": outcome,
                                      "trace": [(t[0], str(t[1])[:30], t[2]) for t in trace][:40]}, counters=counters, case=sub))
                counters = {}
        else:
            out.append(R("held", key, n_reps >= 1 or exp_err, counters=counters,
                         sample={"case": {k: v for k, v in c.items() if k != "durs"}, "outcome": outcome,
                                 "sleeps": [t[1][0] for t in trace if t[0] == "sleep"]} if exp_err or c["kind"] == "gen" else None))
    return out
