"""C18 — subscriptions live exactly as long as they were asked to."""

from __future__ import annotations

from bluesky.utils import Msg

from vf.common import rng_for
from vf.devices import Det
from vf.oracles.common import quiet_logging
from vf.reh import Harness
from vf.worker import R

PROPERTY = "C18"
LEVEL = "exploration"
RULE = ("case = a history of 3..10 operations on one engine: RE.subscribe(f, name) (permanent), RE.unsubscribe(token), and "
        "RE(plan, subs) calls whose subs argument is None / a callable / a list / a dict by document name and whose plan "
        "subscribes and unsubscribes in-plan (Msg('subscribe'/'unsubscribe')) around one or two runs; three recording "
        "callables are deliberately re-used across permanent, per-call and in-plan subscriptions; model: a set of live "
        "subscriptions (token -> callable, name filter, lifetime); oracle: for every emitted document a callable is invoked "
        "iff at least one live subscription of it matches; per-call and in-plan subscriptions are dead after their call; "
        "distinct = (history shape, repeated-callable pattern); non-trivial = some callable has >=2 subscriptions of "
        "different lifetimes at the same time")
ASSUMPTIONS = ["how often a callable subscribed several times is invoked per document is C19's matter: here >=1 vs 0"]
REQUIRED_COUNTERS = {"histories": 200, "documents_checked": 3000, "repeated_callable_histories": 100,
                     "unsubscribes": 80, "per_call_subs": 200, "in_plan_subs": 150}
MANIFEST = {
    "technique": "reference-model differential (live-subscription set) against the real Dispatcher/RunEngine over seeded "
                 "subscribe / unsubscribe / per-call / in-plan histories with repeated callables",
    "category": "exploration",
    "text": "Seeded histories mixing permanent, per-call and in-plan subscriptions of a few re-used callables are executed "
            "on the real engine; for every document the set of callables invoked is compared with the model's live set.",
    "note": "Sampled histories.",
    "design_ref": "4 (C18)",
}
NAMES = ["all", "all", "start", "event", "stop", "descriptor"]


def worker_init(tier, seed):
    quiet_logging()


def gen_cases(tier, seed):
    n = 300 if tier == "quick" else 5000
    return [{"start": s, "count": 15, "seed": seed} for s in range(0, n, 15)]


def run_case(case):
    out = []
    for i in range(case["start"], case["start"] + case["count"]):
        rng = rng_for(case["seed"], "C18", i)
        sub = {"start": i, "count": 1, "seed": case["seed"]}
        h = Harness()
        RE = h.RE
        det = Det("det", h.log, delay=None)
        calls = []   # (callable index, doc name, doc uid)

        def mk(idx):
            def f(name, doc):
                calls.append((idx, name, doc.get("uid")))
            f.__name__ = f"f{idx}"
            return f

        fs = [mk(k) for k in range(3)]
        permanent = {}   # token -> (fidx, name)
        problems = []
        counters = {"histories": 1, "documents_checked": 0, "repeated_callable_histories": 0, "unsubscribes": 0,
                    "per_call_subs": 0, "in_plan_subs": 0}
        shape = ""
        repeated = False
        nops = rng.randint(3, 10)
        for opi in range(nops):
            r = rng.random()
            if r < 0.3:
                k = rng.randrange(3)
                name = rng.choice(NAMES)
                tok = RE.subscribe(fs[k], name)
                if tok in permanent:
                    problems.append(("token-reused", f"token {tok} handed out twice"))
                if any(v[0] == k for v in permanent.values()):
                    repeated = True
                permanent[tok] = (k, name)
                shape += "S"
            elif r < 0.45 and permanent:
                tok = rng.choice(sorted(permanent))
                RE.unsubscribe(tok)
                del permanent[tok]
                counters["unsubscribes"] += 1
                shape += "U"
            else:
                # a call
                kind = rng.choice(["none", "callable", "list", "dict"])
                percall = []
                if kind == "callable":
                    k = rng.randrange(3)
                    subs = fs[k]
                    percall = [(k, "all")]
                elif kind == "list":
                    ks = [rng.randrange(3) for _ in range(rng.randint(1, 2))]
                    subs = [fs[k] for k in ks]
                    percall = [(k, "all") for k in ks]
                elif kind == "dict":
                    subs = {}
                    for _ in range(rng.randint(1, 2)):
                        nm = rng.choice(["start", "event", "stop", "all"])
                        k = rng.randrange(3)
                        subs.setdefault(nm, []).append(fs[k])
                        percall.append((k, nm))
                else:
                    subs = None
                counters["per_call_subs"] += len(percall)
                if any(p[0] == v[0] for p in percall for v in permanent.values()):
                    repeated = True
                inplan = [(rng.randrange(3), rng.choice(NAMES)) for _ in range(rng.choice([0, 0, 1, 2]))]
                counters["in_plan_subs"] += len(inplan)
                if any(p[0] == v[0] for p in inplan for v in permanent.values()) or any(p[0] == q[0] for p in inplan for q in percall):
                    repeated = True
                two_runs = rng.random() < 0.5
                unsub_first = bool(inplan) and two_runs and rng.random() < 0.6
                marks = []

                def plan():
                    toks = []
                    for (k, nm) in inplan:
                        toks.append((yield Msg("subscribe", None, fs[k], nm)))
                    marks.append(("after-sub", len(h.docs())))
                    yield Msg("open_run")
                    yield Msg("create", name="primary")
                    yield Msg("read", det)
                    yield Msg("save")
                    yield Msg("close_run")
                    if unsub_first:
                        yield Msg("unsubscribe", None, toks[0])
                    marks.append(("after-run1", len(h.docs())))
                    if two_runs:
                        yield Msg("open_run")
                        yield Msg("create", name="primary")
                        yield Msg("read", det)
                        yield Msg("save")
                        yield Msg("close_run")

                ndoc = len(h.docs())
                ncall = len(calls)
                res = h.call("RE", RE, plan(), subs) if subs is not None else h.call("RE", RE, plan())
                if res[0] != "ret":
                    problems.append((f"call-failed:{type(res[1]).__name__}", repr(res[1])))
                    break
                docs = h.docs()[ndoc:]
                split = marks[1][1] - ndoc if len(marks) > 1 else len(docs)
                got = {}
                for (k, nm, uid) in calls[ncall:]:
                    got.setdefault((nm, uid), set()).add(k)
                for j, (nm, d) in enumerate(docs):
                    live = list(permanent.values()) + percall + [p for q, p in enumerate(inplan)
                                                                 if not (unsub_first and q == 0 and j >= split)]
                    exp = {k for (k, flt) in live if flt == "all" or flt == nm}
                    g = got.get((nm, d.get("uid")), set())
                    counters["documents_checked"] += 1
                    if g != exp:
                        missing, extra = exp - g, g - exp
                        if missing:
                            k = sorted(missing)[0]
                            lifetimes = sorted({("permanent" if (k, f) in permanent.values() else "") for f in NAMES} - {""}) + \
                                (["per-call"] if any(p[0] == k for p in percall) else []) + (["in-plan"] if any(p[0] == k for p in inplan) else [])
                            others = [t for t in ("permanent", "per-call", "in-plan") if t not in lifetimes]
                            problems.append((f"live-subscription-not-served:{'+'.join(lifetimes)}",
                                             f"op {opi}: document {nm} not delivered to f{k}; live={live}"))
                        else:
                            problems.append(("dead-subscription-served", f"op {opi}: document {nm} delivered to f{sorted(extra)[0]}; live={live}"))
                        break
                shape += "R" + ("2" if two_runs else "1")
                if problems:
                    break
        h.close()
        counters["repeated_callable_histories"] = int(repeated)
        key = f"{shape}|rep={repeated}"
        if problems:
            kd, detail = problems[0]
            out.append(R("violated", key, True, sig=f"C18:{kd}", detail=f"{key}: {detail}", witness={"history": shape},
                         counters=counters, case=sub))
        else:
            out.append(R("held", key, repeated, counters=counters, sample={"history": shape, "repeated_callable": repeated}
                         if repeated and len(shape) < 9 else None))
    return out
