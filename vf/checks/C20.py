"""C20 — message mutators are transparent when they change nothing.

Monitor: trace differential. Every program of the generator grammar (exhaustive up to a size bound, sampled
beyond) is driven bare, under plan_mutator(P, lambda m: (None, None)) and under msg_mutator(P, lambda m: m) by
the same consumer scripts; yielded message objects (identity), responses delivered, exceptions seen (identity
of thrown objects), handlers/finally blocks entered, return value and close behaviour must coincide.
"""

from __future__ import annotations

from vf.common import chunked, rng_for
from vf.gendriver import (Program, all_scripts, count_nodes, deviation_scripts, drive, enumerate_programs, label,
                          max_yields, norm_log, random_program)
from vf.worker import R

PROPERTY = "C20"
LEVEL = "exploration"
RULE = ("case = (program AST, consumer script, mutator in {plan_mutator, msg_mutator}); programs: ALL ASTs of the grammar "
        "{yield, raise, return, seq, yield-from, loop, try/finally, try/except(swallow|reraise|transform)[/else][/finally]} "
        "with <=5 nodes (quick) / <=6 (thorough) + seeded random ASTs up to 14 nodes; scripts: all scripts over {send, throw "
        "ValueError, throw RequestStop, throw RequestAbort, close} of length <=3 plus every single-deviation script of "
        "length yields+2; one result per program; distinct = program AST; non-trivial = program can yield")
ASSUMPTIONS = ["consumer never throws BaseExceptions other than GeneratorExit (the RunEngine never does)",
               "each yield creates a fresh Msg object"]
REQUIRED_COUNTERS = {"drives": 20000, "programs_with_yield_in_finally": 10, "scripts_with_close": 1000,
                     "scripts_with_throw": 1000}
EXHAUSTIVE = {"quick": "all ASTs <= 5 nodes x scripts described in rule", "thorough": "all ASTs <= 6 nodes"}
MANIFEST = {
    "technique": "trace differential (bare vs wrapped) over an exhaustively enumerated generator-program grammar and "
                 "consumer scripts, with identity checks on messages and thrown exceptions",
    "category": "exploration",
    "text": "All small generator programs x send/throw/close scripts are executed bare and under both mutators with an "
            "identity processor; any observable difference (messages, responses, exceptions, return, close) is a violation.",
    "note": "Exhaustive only up to the size bound; driver discipline (explicit close, snapshot before release) is trusted.",
    "design_ref": "5 (C20)",
}


def gen_cases(tier, seed):
    top = 5 if tier == "quick" else 6
    progs = []
    for s in range(1, top + 1):
        progs += enumerate_programs(s)
    rng = rng_for(seed, "C20")
    for _ in range(300 if tier == "quick" else 4000):
        progs.append(random_program(rng, rng.randint(6, 14)))
    return [{"progs": ch} for ch in chunked(progs, 120 if tier == "quick" else 200)]


def _has_yield_in_finally(ast):
    if not isinstance(ast, list):
        return False
    if ast[0] == "tf" and max_yields(ast[2]) > 0:
        return True
    if ast[0] == "tef" and max_yields(ast[4]) > 0:
        return True
    return any(_has_yield_in_finally(c) for c in ast[1:])


def scripts_for(ast):
    k = min(max_yields(ast), 6)
    seen = set()
    out = []
    for L in range(0, 4):
        for s in all_scripts(L):
            t = tuple(s)
            if t not in seen:
                seen.add(t)
                out.append(s)
    for s in deviation_scripts(k + 2):
        t = tuple(s)
        if t not in seen:
            seen.add(t)
            out.append(s)
    return out


def _variants():
    from bluesky.preprocessors import msg_mutator, plan_mutator

    return [("plan_mutator", lambda g: plan_mutator(g, lambda m: (None, None))),
            ("msg_mutator", lambda g: msg_mutator(g, lambda m: m))]


def _tag(msg):
    return (msg.command, msg.args)


def compare(a, b):
    """a, b = (trace, outcome, log, identity_ok). Returns None or (kind, detail)."""
    ta, oa, la = a
    tb, ob, lb = b
    if ta != tb:
        return "messages-differ", f"{ta} vs {tb}"
    if oa != ob:
        ka = oa[0] if isinstance(oa[0], str) else "close-raised"
        kb = ob[0] if isinstance(ob[0], str) else "close-raised"
        return f"outcome-differs:{ka}->{kb}", f"{oa} vs {ob}"
    if la != lb:
        for x, y in zip(la, lb):
            if x != y:
                return f"program-saw-different:{x[0]}->{y[0]}", f"{x} vs {y}"
        return "program-log-length", f"{la[len(lb):] or lb[len(la):]}"
    return None


def _norm(log):
    """Once a program yields AFTER it has been closed ("generator ignored GeneratorExit") the abandoned generators are
    closed by the garbage collector at a time of its choosing: the comparison stops at that yield."""
    out, closed = [], False
    for x in log:
        if x[0] == "closed_at":
            closed = True
        elif x[0] == "yield" and closed:
            out.append(("...", "yield-after-close"))
            break
        out.append(tuple(x))
    return out


def run_case(case):
    out = []
    variants = _variants()
    for ast0 in case["progs"]:
        ast = label(ast0)
        yields = max_yields(ast)
        yif = _has_yield_in_finally(ast)
        counters = {"drives": 0, "programs_with_yield_in_finally": int(yif), "scripts_with_close": 0,
                    "scripts_with_throw": 0}
        problem = None
        for script in scripts_for(ast):
            p = Program(ast)
            tr, oc, msgs = drive(p.gen, script, [p.ctx], _tag)
            base = (tr, oc, _norm(p.log))
            counters["drives"] += 1
            counters["scripts_with_close"] += int("close" in script)
            counters["scripts_with_throw"] += int(any(a not in ("send", "close") for a in script))
            for name, wrap in variants:
                q = Program(ast)
                w = wrap(q.gen)
                tr2, oc2, msgs2 = drive(w, script, [q.ctx], _tag)
                got = (tr2, oc2, _norm(q.log))
                counters["drives"] += 1
                d = compare(base, got)
                if d is None and any(m is not n for m, n in zip(msgs2, q.ctx["msgs"])):
                    d = ("message-object-replaced", "wrapper yielded a different Msg object")
                if d:
                    problem = (name, d, script)
                    break
                del w
            if problem:
                break
        key = repr(ast0)
        if problem:
            name, (kind, detail), script = problem
            out.append(R("violated", key, yields > 0, sig=f"C20:{name}:{kind}",
                         detail=f"program {ast0} script {script}: {detail}"[:600],
                         witness={"program": ast0, "script": script, "difference": detail[:400]}, counters=counters,
                         case={"progs": [ast0]}))
        else:
            out.append(R("held", key, yields > 0, counters=counters,
                         sample={"program": ast0, "n_scripts": len(scripts_for(ast))}
                         if count_nodes(ast0) == 5 and yif else None))
    return out
