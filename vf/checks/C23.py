"""C23 — paired-action wrappers always undo what they did."""

from __future__ import annotations

from bluesky.utils import Msg, RequestAbort, RequestStop

from vf.common import rng_for
from vf.worker import R

PROPERTY = "C23"
LEVEL = "exploration"
RULE = ("case = one drive of run_wrapper / stage_wrapper / lazily_stage_wrapper / subs_wrapper / suspend_wrapper / "
        "monitor_during_wrapper / fly_during_wrapper around a seeded inner plan (3..10 messages on a seeded device tree with "
        "shared ancestors; for the *_during wrappers 1-2 runs built with run_wrapper) whose behaviour is: succeeds, raises "
        "at yield i, is stopped (RequestStop thrown) at i, aborted (RequestAbort) at i, for every i, plus (stage/subs/suspend wrappers) the engine failing the wrapper's own k-th set-up message; the consumer simulates "
        "RunEngine responses (uids, ophyd-style staged lists, subscription tokens); trace oracle: exactly one close_run per "
        "open_run with the status of the outcome; every device a wrapper staged is unstaged exactly once and in reverse "
        "order; every token/suspender installed is removed; unmonitor / complete+collect for every device before each "
        "close_run; distinct = (wrapper, device-tree shape, behaviour of the wrapped plan)")
ASSUMPTIONS = ["stage responses follow ophyd: the list of the device and all its descendants",
               "close() of the wrapper (GeneratorExit) is a different exit and is not judged here (C22)"]
REQUIRED_COUNTERS = {"drives": 2000, "failing_bodies": 400, "stopped_bodies": 300, "aborted_bodies": 300,
                     "shared_ancestor_trees": 200, "undo_checks": 2000, "setup_faults": 200}
MANIFEST = {
    "technique": "trace oracle on the real wrappers driven as generators with simulated engine responses over seeded inner "
                 "plans, device trees and every failure/stop/abort position",
    "category": "exploration",
    "text": "Each paired-action wrapper is driven message by message around seeded inner plans that succeed, raise, or are "
            "stopped/aborted at every yield; the emitted message sequence is checked for the exact undo of what was done.",
    "note": "Generator level with simulated responses; the same wrappers run on the real engine in C06/C12/C13.",
    "design_ref": "5 (C23)",
}
WRAPPERS = ["run_wrapper", "stage_wrapper", "lazily_stage_wrapper", "subs_wrapper", "suspend_wrapper",
            "monitor_during_wrapper", "fly_during_wrapper"]


class Dev:
    def __init__(self, name, parent=None):
        self.name, self.parent, self.children = name, parent, []
        if parent is not None:
            parent.children.append(self)

    def descendants(self):
        out = [self]
        for c in self.children:
            out += c.descendants()
        return out

    def __repr__(self):
        return self.name

    # duck-typing for the plan stubs / wrappers
    def read(self):
        return {}

    def describe(self):
        return {}

    def trigger(self):
        pass

    def set(self, v):
        pass

    def stage(self):
        return self.descendants()

    def unstage(self):
        return self.descendants()

    def kickoff(self):
        pass

    def complete(self):
        pass

    def collect(self):
        return []

    def describe_collect(self):
        return {}

    def subscribe(self, cb):
        pass

    def clear_sub(self, cb):
        pass


def gen_cases(tier, seed):
    n = 700 if tier == "quick" else 10000
    return [{"start": s, "count": 35, "seed": seed} for s in range(0, n, 35)]


SETUP_COMMANDS = ("stage", "subscribe", "install_suspender")


def respond(msg, state):
    if msg.command == "open_run":
        state["n"] += 1
        return f"uid-{state['n']}"
    if msg.command == "stage":
        return msg.obj.descendants()
    if msg.command == "unstage":
        return msg.obj.descendants()
    if msg.command == "subscribe":
        state["tok"] += 1
        return state["tok"]
    if msg.command == "read":
        return {msg.obj.name: {"value": 1, "timestamp": 0}}
    return None


def drive(gen, behaviour, pos):
    """behaviour in success|raise|stop|abort: the exception is thrown at the pos-th message that belongs to the BODY
    (marked by kwargs body=True on a null, or any message whose obj is a body device)."""
    trace = []
    state = {"n": 0, "tok": 100}
    outcome = None
    body_seen = 0
    setup_seen = 0
    try:
        msg = gen.send(None)
        while True:
            trace.append(msg)
            is_body = msg.kwargs.get("_body") is True
            if is_body:
                body_seen += 1
            elif msg.command in SETUP_COMMANDS:
                setup_seen += 1
                if behaviour == "setup" and setup_seen == pos:
                    # the engine fails one of the wrapper's OWN set-up messages (a stage() that raises, ...)
                    state["fault_idx"] = len(trace) - 1
                    behaviour = "done"   # (before the throw: it may propagate straight out of the wrapper)
                    msg = gen.throw(ValueError("body failed"))
                    continue
            if behaviour not in ("success", "setup") and is_body and body_seen == pos:
                exc = {"raise": ValueError("body failed"), "stop": RequestStop(), "abort": RequestAbort()}[behaviour]
                behaviour = "done"   # (before the throw: it may propagate straight out of the wrapper)
                msg = gen.throw(exc)
                continue
            msg = gen.send(respond(msg, state))
    except StopIteration as s:
        outcome = ("return", s.value)
    except BaseException as e:  # noqa: BLE001
        outcome = ("raise", e)
    if "fault_idx" in state:
        outcome = outcome + (state["fault_idx"],)
    return trace, outcome, behaviour == "done"


def run_case(case):
    import bluesky.preprocessors as bpp

    out = []
    for i in range(case["start"], case["start"] + case["count"]):
        rng = rng_for(case["seed"], "C23", i)
        sub = {"start": i, "count": 1, "seed": case["seed"]}
        wname = WRAPPERS[i % len(WRAPPERS)]
        # device tree
        roots = [Dev(f"R{k}") for k in range(rng.randint(1, 3))]
        devs = list(roots)
        for r in roots:
            for c in range(rng.randint(0, 2)):
                ch = Dev(f"{r.name}.c{c}", r)
                devs.append(ch)
                if rng.random() < 0.3:
                    devs.append(Dev(f"{ch.name}.g", ch))
        shared = any(len(r.descendants()) > 1 for r in roots)
        nbody = rng.randint(3, 8)
        body_spec = [(rng.choice(["read", "set", "trigger", "null"]), rng.choice(devs)) for _ in range(nbody)]
        nruns = rng.choice([1, 2]) if wname in ("monitor_during_wrapper", "fly_during_wrapper") else 1

        def body():
            for cmd, d in body_spec:
                if cmd == "null":
                    yield Msg("null", None, _body=True)
                elif cmd == "set":
                    yield Msg("set", d, 1, _body=True)
                else:
                    yield Msg(cmd, d, _body=True)
            return "body-value"

        sigs = [Dev("sigA"), Dev("sigB")][:rng.randint(1, 2)]
        flyers = [Dev("flyA"), Dev("flyB")][:rng.randint(1, 2)]
        staged_list = rng.sample(devs, k=min(len(devs), rng.randint(1, 3)))
        cbs = [lambda n, d: None, lambda n, d: None]
        sub_spec = rng.choice([cbs[0], [cbs[0], cbs[1]], {"event": [cbs[0]], "stop": [cbs[1]]},
                               {"start": [cbs[0]], "stop": [cbs[0]]}, [cbs[0], cbs[0]]])   # (the same callable twice)
        susp = [object(), object()][:rng.randint(1, 2)]

        def build():
            if wname == "run_wrapper":
                return bpp.run_wrapper(body(), md={"k": 1})
            if wname == "stage_wrapper":
                return bpp.stage_wrapper(body(), staged_list)
            if wname == "lazily_stage_wrapper":
                return bpp.lazily_stage_wrapper(body())
            if wname == "subs_wrapper":
                return bpp.subs_wrapper(body(), sub_spec)
            if wname == "suspend_wrapper":
                return bpp.suspend_wrapper(body(), susp)
            def runs():
                for _ in range(nruns):
                    yield from bpp.run_wrapper(body(), md={})
            if wname == "monitor_during_wrapper":
                return bpp.monitor_during_wrapper(runs(), sigs)
            return bpp.fly_during_wrapper(runs(), flyers)

        results = []
        for behaviour in ("success", "raise", "stop", "abort"):
            positions = [0] if behaviour == "success" else list(range(1, nbody * nruns + 1))
            for pos in positions:
                trace, outcome, fired = drive(build(), behaviour, pos)
                if behaviour != "success" and not fired:
                    continue
                results.append((behaviour, pos, trace, outcome))
        if wname in ("stage_wrapper", "lazily_stage_wrapper", "subs_wrapper", "suspend_wrapper"):
            for pos in range(1, 8):
                trace, outcome, fired = drive(build(), "setup", pos)
                if not fired:
                    break
                results.append(("setup", pos, trace, outcome))
        counters = {"drives": len(results), "failing_bodies": sum(1 for r in results if r[0] == "raise"),
                    "stopped_bodies": sum(1 for r in results if r[0] == "stop"),
                    "aborted_bodies": sum(1 for r in results if r[0] == "abort"),
                    "shared_ancestor_trees": int(shared), "undo_checks": 0,
                    "setup_faults": sum(1 for r in results if r[0] == "setup")}
        problems = []
        for behaviour, pos, trace, outcome in results:
            cmds = [(m.command, m.obj) for m in trace]
            where = f"{behaviour}@{pos}"
            fault_idx = outcome[2] if len(outcome) > 2 else None   # the set-up message that failed: its effect is unknown
            ok_trace = [m for j, m in enumerate(trace) if j != fault_idx]
            counters["undo_checks"] += 1
            # the outcome must be preserved
            if behaviour == "success" and outcome[0] != "return":
                problems.append((f"{wname}:success-turned-into-{type(outcome[1]).__name__}", where))
            if behaviour in ("raise", "setup") and not (outcome[0] == "raise" and isinstance(outcome[1], ValueError)):
                problems.append((f"{wname}:exception-lost", f"{where}: {outcome}"))
            if behaviour in ("stop", "abort") and not (outcome[0] == "raise" and isinstance(outcome[1], (RequestStop, RequestAbort))):
                problems.append((f"{wname}:stop-abort-signal-lost", f"{where}: {outcome}"))
            if wname in ("run_wrapper", "monitor_during_wrapper", "fly_during_wrapper"):
                opens = [j for j, m in enumerate(trace) if m.command == "open_run"]
                closes = [j for j, m in enumerate(trace) if m.command == "close_run"]
                if len(opens) != len(closes):
                    problems.append((f"{wname}:open-close-mismatch:{behaviour}", f"{where}: {len(opens)} open_run, {len(closes)} close_run"))
                elif closes:
                    last = trace[closes[-1]]
                    st = last.kwargs.get("exit_status")
                    want = {"success": (None, "success"), "raise": ("fail",), "stop": ("success",), "abort": ("abort",)}[behaviour]
                    if st not in want:
                        problems.append((f"{wname}:close_run-status-{st}:{behaviour}", where))
                    if behaviour == "raise" and last.kwargs.get("reason") != "body failed":
                        problems.append((f"{wname}:fail-reason-lost", f"{where}: {last.kwargs.get('reason')!r}"))
            if wname in ("stage_wrapper", "lazily_stage_wrapper"):
                staged = [m.obj for m in ok_trace if m.command == "stage"]
                unstaged = [m.obj for m in trace if m.command == "unstage"]
                for d in staged:
                    if unstaged.count(d) != 1:
                        problems.append((f"{wname}:staged-device-unstaged-{unstaged.count(d)}-times:{behaviour}", f"{where}: staged {staged} unstaged {unstaged}"))
                        break
                else:
                    order = [d for d in unstaged if d in staged]
                    if order != list(reversed(staged)):
                        problems.append((f"{wname}:not-unstaged-in-reverse-order:{behaviour}", f"{where}: staged {staged} unstaged {order}"))
                if len(set(staged)) != len(staged):
                    problems.append((f"{wname}:device-staged-twice", f"{where}: {staged}"))
                if wname == "lazily_stage_wrapper":
                    # a body message on a device must come after the stage of its root
                    seen_stage = set()
                    for m in trace:
                        if m.command == "stage":
                            seen_stage.add(m.obj)
                        elif m.kwargs.get("_body") and m.command in ("read", "set", "trigger", "kickoff"):
                            root = m.obj
                            while root.parent is not None:
                                root = root.parent
                            if root not in seen_stage:
                                problems.append((f"{wname}:device-used-before-its-root-was-staged", f"{where}: {m.obj}"))
                                break
            if wname == "subs_wrapper":
                toks = []
                # tokens handed out = responses to subscribe messages: 101, 102, ...
                nsub = sum(1 for m in ok_trace if m.command == "subscribe")
                handed = list(range(101, 101 + nsub))
                removed = [m.kwargs.get("token", m.args[0] if m.args else None) for m in trace if m.command == "unsubscribe"]
                if sorted(removed) != handed:
                    problems.append((f"{wname}:tokens-not-all-removed-once:{behaviour}", f"{where}: handed {handed} removed {removed}"))
            if wname == "suspend_wrapper":
                inst = [m.args[0] for m in ok_trace if m.command == "install_suspender"]
                rem = [m.args[0] for m in trace if m.command == "remove_suspender"]
                if fault_idx is not None:
                    # the installation of one failed: the cleanup may also remove that one and the ones it never got to;
                    # the installed ones must be removed exactly once
                    rem = [x for x in rem if any(x is y for y in inst)]
                if sorted(map(id, inst)) != sorted(map(id, rem)) or (fault_idx is None and len(inst) != len(susp)):
                    problems.append((f"{wname}:suspenders-not-all-removed-once:{behaviour}", f"{where}: {len(inst)} installed {len(rem)} removed"))
            if wname in ("monitor_during_wrapper", "fly_during_wrapper"):
                # segment per run: between open_run and close_run
                j = 0
                while j < len(trace):
                    if trace[j].command == "open_run":
                        k2 = next((q for q in range(j + 1, len(trace)) if trace[q].command == "close_run"), None)
                        if k2 is None:
                            break
                        seg = trace[j:k2]
                        if wname == "monitor_during_wrapper":
                            mon = [m.obj for m in seg if m.command == "monitor"]
                            unm = [m.obj for m in seg if m.command == "unmonitor"]
                            if sorted(map(id, mon)) != sorted(map(id, sigs)) or sorted(map(id, unm)) != sorted(map(id, sigs)):
                                problems.append((f"{wname}:monitor-unmonitor-not-paired-before-close_run:{behaviour}",
                                                 f"{where}: monitored {mon} unmonitored {unm}"))
                        else:
                            ko = [m.obj for m in seg if m.command == "kickoff"]
                            co = [m.obj for m in seg if m.command == "complete"]
                            cl = [m.obj for m in seg if m.command == "collect"]
                            if sorted(map(id, ko)) != sorted(map(id, flyers)) or sorted(map(id, co)) != sorted(map(id, flyers)) \
                                    or sorted(map(id, cl)) != sorted(map(id, flyers)):
                                problems.append((f"{wname}:flyers-not-completed-and-collected-before-close_run:{behaviour}",
                                                 f"{where}: kickoff {ko} complete {co} collect {cl}"))
                        j = k2
                    j += 1
        key = f"{wname}|roots={len(roots)}|devs={len(devs)}|shared={shared}|body={nbody}x{nruns}"
        if problems:
            seen = set()
            for kd, detail in problems:
                sig = f"C23:{kd}"
                if sig in seen:
                    continue
                seen.add(sig)
                out.append(R("violated", key + "|" + kd, True, sig=sig, detail=detail,
                             witness={"wrapper": wname, "body": [(c, d.name) for c, d in body_spec]}, counters=counters, case=sub))
                counters = {}
        else:
            out.append(R("held", key, True, counters=counters,
                         sample={"wrapper": wname, "body": [(c, d.name) for c, d in body_spec], "drives": len(results),
                                 "success_trace": [(m.command, getattr(m.obj, "name", None)) for m in results[0][2]][:24]}
                         if shared and wname == "lazily_stage_wrapper" else None))
    return out
