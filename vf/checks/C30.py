"""C30 — suspenders trip and release exactly on their documented conditions.

Monitor: every built-in suspender class is installed on a fake signal against a stub engine (real asyncio loop on a
thread, recorded request_suspend calls) and driven with seeded value sequences from a foreign thread; a 2-state latch
built from the documented predicates is the reference.
"""

from __future__ import annotations

import asyncio
import threading
import time
import warnings

from vf.common import rng_for
from vf.worker import R

PROPERTY = "C30"
LEVEL = "exploration"
RULE = ("case = (suspender class, thresholds/band/expected value incl. 0, 0.0, negative, '' and False, value sequence of "
        "1..12 values drawn around the thresholds, with remove()+install() of the same suspender between two values in 10% of the positions (removal releases the current trip, installation replays the current value)); after every value: tripped == latch, #request_suspend == #untripped->"
        "tripped transitions, the asyncio event of every finished trip is set and the current trip's is not, and the "
        "class's two predicates are not both true; distinct = (class, parameter pattern, sequence shape = string of "
        "S/R/N decisions); non-trivial = sequence contains at least one trip")
ASSUMPTIONS = ["documented predicates: Floor suspends on v < s and resumes on v > r (v == r not judged: 'rises above' is "
               "ambiguous), Ceil mirrored, bands are open intervals, WhenChanged resumes only with allow_resume",
               "values are not NaN", "sleep is 0 or 0.05 s (the values arrive faster than the settle time; the releases are "
               "checked after it has elapsed)"]
REQUIRED_COUNTERS = {"steps_checked": 2000, "trips": 200, "releases": 100, "falsy_param_cases": 20,
                     "predicate_pairs_checked": 1000, "reinstalls": 100,
                     "settle_time_cases": 80}
MANIFEST = {
    "technique": "reference latch (documented predicates) vs real suspender objects driven through a fake signal from a "
                 "foreign thread, stub engine recording request_suspend and release events",
    "category": "exploration",
    "text": "All suspender classes x threshold patterns (including falsy values) x seeded value sequences are executed; "
            "tripped flag, suspension requests and releases are compared with a two-predicate latch after every value.",
    "note": "Stub engine instead of a RunEngine (the engine side is C31/C11); real asyncio loop thread.",
    "design_ref": "6 (C30)",
}


class _State:
    is_running = True


class StubRE:
    def __init__(self, loop):
        self._loop = loop
        self.state = _State()
        self.requests = []

    def request_suspend(self, fut, *, pre_plan=None, post_plan=None, justification=None):
        self.requests.append((fut, justification))


_loop = None


def _get_loop():
    global _loop
    if _loop is None:
        _loop = asyncio.new_event_loop()
        threading.Thread(target=_loop.run_forever, daemon=True, name="c30-loop").start()
    return _loop


def _flush(loop, n=3):
    async def noop():
        await asyncio.sleep(0)

    for _ in range(n):
        asyncio.run_coroutine_threadsafe(noop(), loop).result(5)


def configs(rng):
    cls = rng.choice(["SuspendBoolHigh", "SuspendBoolLow", "SuspendFloor", "SuspendCeil", "SuspendWhenOutsideBand",
                      "SuspendOutBand", "SuspendWhenChanged"])
    if cls in ("SuspendBoolHigh", "SuspendBoolLow"):
        return cls, {}, [0, 1, True, False, 2, -1, 0.0, 5.5]
    if cls in ("SuspendFloor", "SuspendCeil"):
        s = rng.choice([-5, 0, 0.0, 3, 10, -0.5])
        d = rng.choice([None, 0, 2, 0.5])
        if d is None:
            r = None
        else:
            r = s + d if cls == "SuspendFloor" else s - d
        reff = s if r is None else r
        pool = [s - 1, s - 0.25, s + 0.25, s + 1, reff - 0.1, reff + 0.1, reff + 3, reff - 3, 0, -100, 100]
        if reff != s:
            pool.append(s)
        pool = [v for v in pool if v != reff]
        return cls, {"suspend_thresh": s, "resume_thresh": r}, pool
    if cls in ("SuspendWhenOutsideBand", "SuspendOutBand"):
        bot, top = rng.choice([(-1, 1), (0, 5), (-10, 0), (2, 3), (0.0, 0.5)])
        pool = [bot - 1, bot, bot + (top - bot) / 4, (bot + top) / 2, top, top + 1, 0, 100, -100]
        return cls, {"band_bottom": bot, "band_top": top}, pool
    expected = rng.choice([None, 0, 1, 5, "A", "", False, 0.0])
    init = rng.choice([0, 5, "B", 1])
    return cls, {"expected_value": expected, "allow_resume": rng.choice([True, False]), "_init": init}, \
        [0, 1, 5, "A", "B", "", False, 7]


def reference(cls, p, init):
    if cls == "SuspendBoolHigh":
        return (lambda v: bool(v)), (lambda v: not bool(v))
    if cls == "SuspendBoolLow":
        return (lambda v: not bool(v)), (lambda v: bool(v))
    if cls == "SuspendFloor":
        s = p["suspend_thresh"]
        r = s if p["resume_thresh"] is None else p["resume_thresh"]
        return (lambda v: v < s), (lambda v: v > r)
    if cls == "SuspendCeil":
        s = p["suspend_thresh"]
        r = s if p["resume_thresh"] is None else p["resume_thresh"]
        return (lambda v: v > s), (lambda v: v < r)
    if cls == "SuspendWhenOutsideBand":
        b, t = p["band_bottom"], p["band_top"]
        return (lambda v: not (b < v < t)), (lambda v: b < v < t)
    if cls == "SuspendOutBand":
        b, t = p["band_bottom"], p["band_top"]
        return (lambda v: b < v < t), (lambda v: not (b < v < t))
    exp = init if p["expected_value"] is None else p["expected_value"]
    ar = p["allow_resume"]

    def eq(a, b):
        return a == b

    return (lambda v: not eq(v, exp)), (lambda v: ar and eq(v, exp))


def gen_cases(tier, seed):
    n = 1200 if tier == "quick" else 20000
    return [{"start": s, "count": 60, "seed": seed} for s in range(0, n, 60)]


def run_case(case):
    import bluesky.suspenders as bs
    from vf.devices import Sig

    loop = _get_loop()
    out = []
    for i in range(case["start"], case["start"] + case["count"]):
        rng = rng_for(case["seed"], "C30", i)
        cls, p, pool = configs(rng)
        sub = {"start": i, "count": 1, "seed": case["seed"]}
        init = p.pop("_init", rng.choice(pool))
        sig = Sig("sig", value=init)
        kwargs = {k: v for k, v in p.items() if not (k == "resume_thresh" and v is None)}
        # a settle time: the release of a finished trip comes `sleep` seconds after the return to nominal, and a new trip
        # inside that window is a new suspension
        settle = 0.05 if rng.random() < 0.2 else 0
        if settle:
            kwargs["sleep"] = settle
        with warnings.catch_warnings():
            warnings.simplefilter("ignore")
            sus = getattr(bs, cls)(sig, **kwargs)
        falsy = any((v == 0 or v == "" or v is False) and v is not None and k != "allow_resume" for k, v in p.items())
        sus_pred, res_pred = reference(cls, p, init)
        stub = StubRE(loop)
        T = False
        reqs = 0
        seq = [init] + [rng.choice(pool) for _ in range(rng.randint(0, 11))]
        # "reinstall" entries: remove() then install() again while the signal keeps its value (the value is replayed)
        REINSTALL = ("reinstall",)
        seq = [x for v in seq for x in ([v, REINSTALL] if rng.random() < 0.1 else [v])]
        cur_v = init
        shape = ""
        problem = None
        counters = {"falsy_param_cases": int(falsy), "steps_checked": 0, "trips": 0, "releases": 0,
                    "predicate_pairs_checked": 0, "reinstalls": 0, "settle_time_cases": 0}
        finished_events = []
        current_event_idx = None
        for step, v in enumerate(seq):
            if step == 0:
                sus.install(stub)
            elif v is REINSTALL:
                sus.remove()
                _flush(loop)
                # removal ends the current trip: its waiters are released
                if T:
                    finished_events.append(current_event_idx)
                    current_event_idx = None
                T = False
                counters["reinstalls"] += 1
                sus.install(stub)
                v = cur_v
            else:
                sig.put(v)
            cur_v = v
            _flush(loop)
            if sus_pred(v):
                if not T:
                    reqs += 1
                    counters["trips"] += 1
                    current_event_idx = reqs - 1
                T = True
                shape += "S"
            elif res_pred(v):
                if T:
                    counters["releases"] += 1
                    finished_events.append(current_event_idx)
                    current_event_idx = None
                T = False
                shape += "R"
            else:
                shape += "N"
            counters["steps_checked"] += 1
            if hasattr(sus, "_should_suspend") and hasattr(sus, "_should_resume"):
                counters["predicate_pairs_checked"] += 1
                try:
                    if sus._should_suspend(v) and sus._should_resume(v):
                        problem = ("both-predicates-true", f"value {v!r}")
                        break
                except Exception:  # noqa: BLE001
                    pass
            if bool(sus.tripped) != T:
                problem = ("tripped-when-should-not" if sus.tripped else "not-tripped-when-should",
                           f"after values {seq[:step + 1]!r} tripped={sus.tripped} expected {T}")
                break
            if len(stub.requests) != reqs:
                problem = ("request-count", f"after values {seq[:step + 1]!r} requests={len(stub.requests)} expected {reqs}")
                break
            bad_rel = None
            for k, (fut, just) in enumerate(stub.requests):
                ev = getattr(fut, "__self__", None)
                if ev is None:
                    continue
                is_set = ev.is_set()
                if k in finished_events and not is_set and not settle:
                    bad_rel = ("release-missing", k)
                if k == current_event_idx and is_set:
                    bad_rel = ("released-while-condition-holds", k)
            if bad_rel:
                problem = (bad_rel[0], f"after values {seq[:step + 1]!r} request #{bad_rel[1]}")
                break
        if settle and problem is None:
            counters["settle_time_cases"] += 1
            time.sleep(settle + 0.08)
            _flush(loop)
            for k, (fut, just) in enumerate(stub.requests):
                ev = getattr(fut, "__self__", None)
                if ev is None:
                    continue
                if k in finished_events and not ev.is_set():
                    problem = ("release-missing-after-settle-time", f"values {seq!r} request #{k}")
                if k == current_event_idx and ev.is_set():
                    problem = ("released-while-condition-holds", f"values {seq!r} request #{k} (after the settle time)")
        try:
            sus.remove()
            _flush(loop, 1)
        except Exception:  # noqa: BLE001
            pass
        ppat = {k: ("None" if v is None else ("falsy" if (v == 0 or v == "" or v is False) else "set")) for k, v in p.items()}
        key = f"{cls}|{ppat}|{shape}"
        if problem:
            tag = ":falsy-param" if falsy else ""
            out.append(R("violated", key, True, sig=f"C30:{cls}:{problem[0]}{tag}",
                         detail=f"{cls}({p}) init={init!r}: {problem[1]}",
                         witness={"class": cls, "params": repr(p), "init": repr(init), "values": repr(seq)},
                         counters=counters, case=sub))
        else:
            out.append(R("held", key, "S" in shape, counters=counters,
                         sample={"class": cls, "params": repr(p), "values": repr(seq), "decisions": shape,
                                 "requests": len(stub.requests)} if shape.count("S") and shape.count("R") else None))
    return out
