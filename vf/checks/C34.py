"""C34 — JSON writers produce files that parse back to the documents."""

from __future__ import annotations

import json
import os
import shutil
import tempfile

from vf.common import rng_for
from vf.worker import R

PROPERTY = "C34"
LEVEL = "exploration"
RULE = ("case = one run (start, 0..12 middle documents, stop) of seeded JSON-compatible documents (nested dicts/lists, "
        "strings with newlines, quotes, backslashes, unicode and commas/brackets, ints, floats, bools, nulls, empty "
        "containers) pushed through JSONWriter (explicit / uid-derived file name, a leftover file under that name, a second run of "
        "the same instance) and JSONLinesWriter (fresh file, or a pre-existing newline-terminated file with 1..4 earlier "
        "lines under an explicit or uid-derived name, created before or after the writer was constructed, incl. a previous "
        "run of the same writer); oracle: the "
        "JSONWriter file parses as a JSON array equal to the name/doc records in order; every JSONLines line parses on its "
        "own, the earlier lines are unchanged and the new lines equal the records in order; distinct = (writer, document "
        "sequence shape, pre-existing file shape)")
ASSUMPTIONS = ["documents are JSON-canonical (lists not tuples, finite floats)", "pre-existing JSON Lines files end with a newline"]
REQUIRED_COUNTERS = {"runs": 300, "records_checked": 2000, "preexisting_files": 80, "tricky_strings": 300}
MANIFEST = {
    "technique": "round-trip oracle (file parsed back vs records written) on the real writers over seeded JSON documents and "
                 "pre-existing file shapes",
    "category": "exploration",
    "text": "Seeded runs of JSON-compatible documents with hostile string content are written by the real JSONWriter and "
            "JSONLinesWriter into temporary directories; the files are parsed back and compared record by record.",
    "note": "Sampled documents; real file system (temporary directory removed after each case).",
    "design_ref": "7 (C34)",
}
TRICKY = ["plain", "new\nline", 'quo"te', "back\\slash", "comma, ] } [ {", "uni é 中  ", "", " ", "\t tab", "]\n["]


def gen_cases(tier, seed):
    n = 400 if tier == "quick" else 6000
    return [{"start": s, "count": 25, "seed": seed} for s in range(0, n, 25)]


def rand_val(rng, depth=0):
    r = rng.random()
    if depth >= 3 or r < 0.45:
        return rng.choice([1, -7, 0, 2.5, 1e-9, True, False, None] + TRICKY)
    if r < 0.75:
        return {rng.choice(TRICKY[:6] + ["k1", "k2"]) + str(j): rand_val(rng, depth + 1) for j in range(rng.randint(0, 3))}
    return [rand_val(rng, depth + 1) for _ in range(rng.randint(0, 3))]


def run_case(case):
    from bluesky.callbacks.json_writer import JSONLinesWriter, JSONWriter

    out = []
    for i in range(case["start"], case["start"] + case["count"]):
        rng = rng_for(case["seed"], "C34", i)
        sub = {"start": i, "count": 1, "seed": case["seed"]}
        d = tempfile.mkdtemp(prefix="c34")
        try:
            writer = rng.choice(["json", "json-named", "json-named-pre", "json-tworuns", "jsonl", "jsonl-pre", "jsonl-tworuns",
                                 "jsonl-derived-pre", "jsonl-created-after-construction"])
            uid = f"{rng.randrange(16**8):08x}-aaaa-bbbb"
            nmid = rng.randint(0, 12)
            records = [("start", {"uid": uid, "time": 1.5, "md": rand_val(rng)})]
            for k in range(nmid):
                records.append((rng.choice(["descriptor", "event", "event_page", "resource", "datum"]),
                                {"uid": f"m{k}", "payload": rand_val(rng)}))
            records.append(("stop", {"uid": "s", "run_start": uid, "exit_status": "success", "x": rand_val(rng)}))
            tricky = sum(json.dumps(r).count("\\") for r in records)
            counters = {"runs": 1, "records_checked": len(records), "preexisting_files": 0, "tricky_strings": min(tricky, 5)}
            problem = None
            exp = [{"name": n, "doc": dd} for n, dd in records]
            if writer.startswith("json") and not writer.startswith("jsonl"):
                fn = "out.json" if writer in ("json-named", "json-named-pre") else None
                if writer == "json-named-pre":
                    # a leftover file under the same name: the new run replaces it
                    with open(os.path.join(d, fn), "w") as f:
                        f.write(rng.choice(['[\n{"name": "start", "doc": {"uid": "old"}},\n{"name": "stop", "doc": {}}\n]',
                                            "left over, not even JSON", "[\n"]))
                    counters["preexisting_files"] = 1
                w = JSONWriter(d, fn)
                if writer == "json-tworuns":
                    # the same writer instance already wrote a run (it keeps its file name): the file holds the LAST run
                    for n, dd in [("start", {"uid": uid, "v": rand_val(rng)}), ("event", {"uid": "e0"}), ("stop", {"uid": "s0"})]:
                        w(n, dd)
                    counters["preexisting_files"] = 1
                for n, dd in records:
                    w(n, dd)
                path = os.path.join(d, fn or f"{uid.split('-')[0]}.json")
                try:
                    with open(path) as f:
                        parsed = json.load(f)
                    if parsed != exp:
                        problem = ("array-differs-from-records", f"{len(parsed)} vs {len(exp)} records")
                except Exception as e:  # noqa: BLE001
                    problem = (f"file-does-not-parse:{type(e).__name__}", str(e)[:120])
            else:
                fn = "log.jsonl" if writer != "jsonl-derived-pre" else None
                old_lines = []
                path = os.path.join(d, fn or f"{uid.split('-')[0]}.jsonl")
                w = None
                if writer == "jsonl-created-after-construction":
                    w = JSONLinesWriter(d, fn)      # constructed before anybody created the file
                if writer in ("jsonl-pre", "jsonl-derived-pre", "jsonl-created-after-construction"):
                    old_lines = [json.dumps({"name": "event", "doc": {"old": k, "s": rng.choice(TRICKY)}}) for k in range(rng.randint(1, 4))]
                    with open(path, "w") as f:
                        f.write("\n".join(old_lines) + "\n")
                    counters["preexisting_files"] = 1
                w = w or JSONLinesWriter(d, fn)
                if writer == "jsonl-tworuns":
                    first = [("start", {"uid": "first-run", "v": rand_val(rng)}), ("stop", {"uid": "s0", "v": 1})]
                    for n, dd in first:
                        w(n, dd)
                    old_lines = [json.dumps({"name": n, "doc": dd}) for n, dd in first]
                    counters["preexisting_files"] = 1
                for n, dd in records:
                    w(n, dd)
                with open(path) as f:
                    content = f.read()
                lines = content.split("\n")
                if lines[-1] != "":
                    problem = ("file-not-newline-terminated", repr(content[-30:]))
                else:
                    lines = lines[:-1]
                    try:
                        parsed = [json.loads(ln) for ln in lines]
                    except Exception as e:  # noqa: BLE001
                        parsed = None
                        problem = (f"line-does-not-parse:{type(e).__name__}", str(e)[:120])
                    if parsed is not None:
                        if lines[:len(old_lines)] != old_lines:
                            problem = ("earlier-content-changed", f"{lines[:len(old_lines)]} vs {old_lines}")
                        elif parsed[len(old_lines):] != exp:
                            problem = ("lines-differ-from-records", f"{len(parsed) - len(old_lines)} new lines vs {len(exp)} records")
            key = f"{writer}|mid={min(nmid, 5)}|tricky={tricky > 0}"
            if problem:
                out.append(R("violated", key, True, sig=f"C34:{writer.split('-')[0]}:{problem[0]}", detail=f"{key}: {problem[1]}",
                             witness={"writer": writer, "records": records[:6]}, counters=counters, case=sub))
            else:
                out.append(R("held", key, True, counters=counters,
                             sample={"writer": writer, "n_records": len(records), "first": records[0]} if tricky > 3 and nmid < 3 else None))
        finally:
            shutil.rmtree(d, ignore_errors=True)
    return out
