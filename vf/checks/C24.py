"""C24 — relative moves are offsets from the start and are undone at the end."""

from __future__ import annotations

from vf.common import jsonable, rng_for
from vf.devices import Base, Det, Fault, LocMotor, Motor, St
from vf.oracles.common import quiet_logging
from vf.reh import Harness
from vf.worker import R

PROPERTY = "C24"
LEVEL = "exploration"
RULE = ("case = one real-RunEngine execution of rel_set / mvr / relative_set_wrapper / reset_positions_wrapper / rel_scan / "
        "rel_list_scan / rel_grid_scan / rel_log_scan / x2x_scan on 1-3 fake movers of three position-discovery kinds "
        "(Locatable, .position attribute, read-only with/without hints) at seeded initial positions with seeded offsets, "
        "ending by success, by a detector failure at a seeded step (raise / failed status), by a mover's own motion status failing at its 1st/2nd set, or by stop / abort landing at a "
        "seeded loop coordinate; oracle: every target commanded by the body equals initial + requested offset, and for "
        "the resetting plans/wrappers the LAST set of every moved device equals its initial position on every exit path; "
        "plus family pseudo_axes: reset_positions_wrapper with/without relative_set_wrapper on 2-3 pseudo axes of ONE ophyd.sim PseudoPositioner "
        "(given as the moved axes / the parent / all axes), the axes first moved together or at different steps, the plan "
        "succeeding or raising at a seeded step; oracle on the device: named axes stand at initial+offset after each relative step and the positioner is back at its initial position after the call; "
        "distinct = (plan, device kinds, exit path)")
ASSUMPTIONS = ["tolerance 1e-12 relative on positions", "a Locatable's initial position is its setpoint (its readback is 0.02 off in these fakes)", "halt (no cleanup by definition) is not an exit 'with cleanup'"]
REQUIRED_COUNTERS = {"set_failure_exits": 30, "executions": 400, "targets_checked": 1500, "resets_checked": 400, "failure_exits": 80,
                     "stop_abort_exits": 40, "readonly_position_devices": 60, "locatable_devices": 60,
                     "pseudo_executions": 30, "pseudo_first_moves_apart": 15, "pseudo_failure_exits": 5}
MANIFEST = {
    "technique": "device-ledger oracle (commanded targets vs initial+offset, last set vs initial) on real executions over "
                 "seeded positions, offsets, device kinds and exit paths incl. injected faults and stop/abort",
    "category": "exploration",
    "text": "Relative plans and wrappers are executed on fakes of all three position-discovery kinds and ended in every "
            "cleanup-bearing way; the ledger of set() calls is compared with initial+offset and with the initial "
            "positions for the final reset.",
    "note": "Sampled inputs and exit points.",
    "design_ref": "5 (C24)",
}
PLANS = ["rel_set", "mvr", "relative_set_wrapper", "reset_positions_wrapper", "rel_scan", "rel_list_scan", "rel_grid_scan",
         "rel_log_scan", "x2x_scan", "pseudo_axes"]
RESETTING = {"reset_positions_wrapper", "rel_scan", "rel_list_scan", "rel_grid_scan", "rel_log_scan", "x2x_scan"}


class LocMotorRB(LocMotor):
    """Locatable whose readback differs from its setpoint (following error): the setpoint is the position to use."""

    def locate(self):
        self._rec("locate")
        return self._ret("locate", {"setpoint": self.position, "readback": self.position + 0.02})


class ReadMotor(Base):
    """No .position attribute and not Locatable: the wrappers must read it."""
    parent = None

    def __init__(self, name, ledger, faults=None, pos=0.0, hinted=True):
        super().__init__(name, ledger, faults)
        self._p = pos
        if hinted:
            self.hints = {"fields": [name]}

    def set(self, value, **kw):
        mode = self._rec("set", value)
        self._p = value
        return self._ret("set", self._status("set", mode, None))

    def stop(self, success=True):
        self._rec("stop", success)

    def read(self):
        self._rec("read")
        return {self.name: {"value": self._p, "timestamp": 1.0}, self.name + "_setpoint": {"value": self._p, "timestamp": 1.0}}

    def describe(self):
        return {self.name: {"source": "x", "dtype": "number", "shape": []},
                self.name + "_setpoint": {"source": "x", "dtype": "number", "shape": []}}

    def read_configuration(self):
        return {}

    def describe_configuration(self):
        return {}


def run_pseudo(rng, sub):
    """reset_positions_wrapper / relative_set_wrapper on the pseudo axes of ONE ophyd PseudoPositioner (ophyd.sim's 3x3, soft
    real axes: every set is finished when it returns): the axes get their first move together or at DIFFERENT steps of the
    plan; the plan ends by success or raises at a seeded step.  Oracle on the device itself: after every relative step the
    moved axis stands at initial+offset and the others where they stood; after the call the positioner is back at its
    initial position."""
    import bluesky.plan_stubs as bps
    import bluesky.preprocessors as bpp
    from bluesky import RunEngine
    from ophyd.sim import hw as make_hw

    dev = make_hw().pseudo3x3
    axes = [dev.pseudo1, dev.pseudo2, dev.pseudo3]
    initial = tuple(rng.choice([0.0, 1.0, -2.0, 3.5, 5.25]) for _ in range(3))  # (the 3x3's pseudo axes are limited to +-10)
    dev.set(*initial)
    relative = rng.random() < 0.5
    nsteps = rng.randint(2, 5)
    steps = []
    for _ in range(nsteps):
        which = sorted(rng.sample(range(3), rng.choice([1, 1, 1, 2])))
        steps.append([(k, rng.choice([-1.5, -0.5, 0.75, 2.0, 4.0])) for k in which])
    moved = sorted({k for st in steps for k, _ in st})
    given = rng.choice(["moved-axes", "parent", "all-axes"])
    devices = {"moved-axes": [axes[k] for k in moved], "parent": [dev], "all-axes": list(axes)}[given]
    fail_at = rng.choice([None, None, rng.randint(1, nsteps)])
    first_moves = "together" if len({next(i for i, st in enumerate(steps) if any(k == a for k, _ in st)) for a in moved}) == 1 else "apart"
    seen, problems = [], []
    counters = {"executions": 1, "pseudo_executions": 1, "pseudo_first_moves_apart": int(first_moves == "apart" and len(moved) > 1),
                "pseudo_failure_exits": 0, "targets_checked": 0, "resets_checked": 0}

    def body():
        for n, st in enumerate(steps, 1):
            args = []
            for k, v in st:
                args += [axes[k], v]
            yield from bps.mv(*args)
            seen.append(tuple(dev.position))
            if fail_at == n:
                raise RuntimeError("seeded failure in the plan body")

    plan = bpp.relative_set_wrapper(body(), devices) if relative else body()
    plan = bpp.reset_positions_wrapper(plan, devices)
    RE = RunEngine({}, context_managers=[])
    try:
        RE(plan)
        outcome = "success"
    except RuntimeError:
        outcome = "plan-raised"
        counters["pseudo_failure_exits"] = 1
    final = tuple(dev.position)
    state = str(RE.state)
    key = f"pseudo_axes|{'relative+reset' if relative else 'reset'}|devices={given}|first-moves={first_moves}|moved={len(moved)}|exit={outcome}"
    if state != "idle":
        return R("inconclusive", key, detail=f"engine ended {state}")
    tol = lambda a, b: abs(a - b) <= 1e-9 * max(1.0, abs(b))  # noqa: E731
    # (only the axes a step names are judged: where a relative multi-axis move leaves an axis it does NOT name is not part
    #  of the property - the unchanged wrapper sends such an axis to initial+0)
    for st, got in zip(steps, seen):
        counters["targets_checked"] += 1
        bad = [(k, got[k], (initial[k] + v) if relative else v) for k, v in st if not tol(got[k], (initial[k] + v) if relative else v)]
        if bad:
            problems.append(("target-is-not-initial-plus-offset:pseudo-axis" if relative else "absolute-target-not-reached:pseudo-axis",
                             f"after step {st}: position {got}; (axis, stands at, expected) {bad} (initial {initial})"))
            break
    counters["resets_checked"] += 1
    if not all(tol(g, c) for g, c in zip(final, initial)):
        problems.append((f"not-returned-to-initial-position:exit={outcome}:pseudo-axes-first-moved-{first_moves}",
                         f"initial {initial}, ended at {final}; steps {steps}; devices={given}"))
    if problems:
        kdn, detail = problems[0]
        return R("violated", key + "|" + kdn, True, sig=f"C24:pseudo_axes:{kdn}", detail=detail,
                 witness={"plan": "pseudo_axes", "relative": relative, "devices": given, "initial": list(initial), "steps": steps,
                          "fail_at": fail_at, "positions_after_steps": jsonable(seen), "final": list(final)},
                 counters=counters, case=sub)
    return R("held", key, True, counters=counters,
             sample={"plan": "pseudo_axes", "relative": relative, "devices": given, "initial": list(initial), "steps": steps,
                     "exit": outcome, "final": list(final)} if first_moves == "apart" else None)


def worker_init(tier, seed):
    quiet_logging()


def gen_cases(tier, seed):
    n = 480 if tier == "quick" else 8000
    return [{"start": s, "count": 16, "seed": seed} for s in range(0, n, 16)]


def run_case(case):
    import numpy as np

    import bluesky.plan_stubs as bps
    import bluesky.plans as bp
    import bluesky.preprocessors as bpp
    from bluesky.utils import Msg

    out = []
    for i in range(case["start"], case["start"] + case["count"]):
        rng = rng_for(case["seed"], "C24", i)
        sub = {"start": i, "count": 1, "seed": case["seed"]}
        pname = PLANS[i % len(PLANS)]
        if pname == "pseudo_axes":
            out.append(run_pseudo(rng, sub))
            continue
        exit_kind = rng.choice(["success", "success", "fault-raise", "fault-status", "fault-set-status", "stop", "abort"])
        faults = {}
        h = Harness()
        nm = 2 if pname in ("x2x_scan", "mvr", "rel_grid_scan") else rng.randint(1, 3)
        kinds = [rng.choice(["position", "locatable", "readonly", "readonly-nohints"]) for _ in range(nm)]
        if pname in ("rel_scan", "rel_list_scan", "rel_grid_scan", "rel_log_scan", "x2x_scan"):
            # the scans also READ their motors into the event: use kinds whose read() has the plain shape
            kinds = [k if k in ("position", "locatable") else "position" for k in kinds]
        init = [rng.choice([0.0, 1.25, -7.5, 100.125, 3.0]) for _ in range(nm)]
        if exit_kind == "fault-raise":
            faults[("det", "trigger", rng.randint(1, 3))] = "raise"
        elif exit_kind == "fault-status":
            faults[("det", "trigger", rng.randint(1, 3))] = "fail-now"
        elif exit_kind == "fault-set-status":
            # a mover's own motion fails at once (its 1st or 2nd set): the failure reaches the plan at the next message,
            # possibly the first set of ANOTHER device, which did move
            faults[(f"m{rng.randrange(nm)}", "set", rng.randint(1, 2))] = "fail-now"
        motors = []
        for k in range(nm):
            if kinds[k] == "position":
                motors.append(Motor(f"m{k}", h.log, faults, delay=None, pos=init[k]))
            elif kinds[k] == "locatable":
                m = LocMotorRB(f"m{k}", h.log, faults, delay=None, pos=init[k])
                motors.append(m)
            else:
                motors.append(ReadMotor(f"m{k}", h.log, faults, pos=init[k], hinted=kinds[k] == "readonly"))
        det = Det("det", h.log, faults, delay=None)
        offs = [[round(rng.uniform(-3, 3), 2) for _ in range(rng.randint(2, 4))] for _ in range(nm)]
        expected_targets = {m.name: [] for m in motors}

        def moves_plan():
            """a plan that sets each motor to each of its offsets (interpreted as relative by the wrapper), with a
            detector trigger in between (so that faults and interruptions have somewhere to land)"""
            for step in range(max(len(o) for o in offs)):
                for m, o, x0 in zip(motors, offs, init):
                    if step < len(o):
                        expected_targets[m.name].append(x0 + o[step])
                        yield Msg("set", m, o[step], group="g")
                yield Msg("wait", None, group="g")
                yield Msg("trigger", det, group="t")
                yield Msg("wait", None, group="t")
                yield Msg("sleep", None, 0.01)

        num = rng.randint(2, 4)
        a, b = rng.choice([(-1.0, 1.0), (0.0, 2.5), (-2.0, -0.5)])
        if pname == "rel_set":
            def plan():
                for m, o, x0 in zip(motors, offs, init):
                    expected_targets[m.name].append(x0 + o[0])
                    yield from bps.rel_set(m, o[0], wait=True)
                yield Msg("trigger", det, group="t")
                yield Msg("wait", None, group="t")
            p = plan()
        elif pname == "mvr":
            def plan():
                args = []
                for m, o, x0 in zip(motors, offs, init):
                    expected_targets[m.name].append(x0 + o[0])
                    args += [m, o[0]]
                yield from bps.mvr(*args)
                yield Msg("trigger", det, group="t")
                yield Msg("wait", None, group="t")
            p = plan()
        elif pname == "relative_set_wrapper":
            p = bpp.relative_set_wrapper(moves_plan())
        elif pname == "reset_positions_wrapper":
            p = bpp.reset_positions_wrapper(bpp.relative_set_wrapper(moves_plan()))
        elif pname == "rel_scan":
            args = []
            for m, x0 in zip(motors, init):
                args += [m, a, b]
                expected_targets[m.name] = [x0 + v for v in np.linspace(a, b, num)]
            p = bp.rel_scan([det], *args, num=num)
        elif pname == "rel_list_scan":
            args = []
            for m, o, x0 in zip(motors, offs, init):
                lst = (o * 4)[:num]
                args += [m, lst]
                expected_targets[m.name] = [x0 + v for v in lst]
            p = bp.rel_list_scan([det], *args)
        elif pname == "rel_grid_scan":
            p = bp.rel_grid_scan([det], motors[0], a, b, 2, motors[1], a, b, num, snake_axes=False)
            expected_targets[motors[0].name] = [init[0] + v for v in np.linspace(a, b, 2)]
            expected_targets[motors[1].name] = [init[1] + v for v in np.linspace(a, b, num)]
        elif pname == "rel_log_scan":
            p = bp.rel_log_scan([det], motors[0], 0.0, 1.0, num)
            expected_targets[motors[0].name] = [init[0] + v for v in np.logspace(0.0, 1.0, num)]
            motors, init, kinds = motors[:1], init[:1], kinds[:1]
        else:
            p = bp.x2x_scan([det], motors[0], motors[1], a, b, num)
            expected_targets[motors[0].name] = [init[0] + v for v in np.linspace(a, b, num)]
            expected_targets[motors[1].name] = [init[1] + v for v in np.linspace(a / 2, b / 2, num)]
        if exit_kind in ("stop", "abort"):
            h.inject_at((rng.randint(6, 30), rng.randint(1, 3)), exit_kind)
        res = h.call("RE", h.RE, p)
        state = str(h.RE.state)
        h.close()
        log = h.log
        landed = any(e[0] == "inject" for e in log)
        faulted = any(e[0] == "fault" for e in log)
        problems = []
        counters = {"executions": 1, "targets_checked": 0, "resets_checked": 0,
                    "failure_exits": int(faulted), "stop_abort_exits": int(landed),
                    "set_failure_exits": int(faulted and exit_kind == "fault-set-status"),
                    "readonly_position_devices": sum(1 for k in kinds if k.startswith("readonly")),
                    "locatable_devices": sum(1 for k in kinds if k == "locatable")}
        if state != "idle":
            out.append(R("inconclusive", pname, detail=f"engine ended {state}"))
            continue
        sets = {m.name: [e[3] for e in log if e[0] == "dev" and e[1] == m.name and e[2] == "set"] for m in motors}
        # a stop/abort that lands while the reset itself is running interrupts the cleanup (that is what a second request is
        # for): not an exit "with cleanup". Recognised by a set back to an initial position BEFORE the request landed.
        inj_idx = next((j for j, e in enumerate(log) if e[0] == "inject"), None)
        if inj_idx is not None:
            # (a request takes effect a couple of loop handles after it landed: the engine's own state change marks it)
            inj_idx = next((j for j, e in enumerate(log) if j > inj_idx and e[0] == "state" and e[1] in ("stopping", "aborting")),
                           inj_idx)
        in_cleanup = False
        if inj_idx is not None and pname in RESETTING:
            for m, x0 in zip(motors, init):
                before = [float(e[3][0] if isinstance(e[3], (list, tuple)) else e[3]) for e in log[:inj_idx]
                          if e[0] == "dev" and e[1] == m.name and e[2] == "set"]
                if before and abs(before[-1] - x0) <= 1e-12 * max(1.0, abs(x0)):
                    in_cleanup = True
        counters["landed_in_cleanup_not_judged"] = int(in_cleanup)
        grid_like = pname in ("rel_grid_scan",)
        for m, x0, kd in zip(motors, init, kinds):
            got = [float(v) for v in sets[m.name]]
            exp = [float(v) for v in expected_targets[m.name]]
            body = got[:-1] if (pname in RESETTING and got) else got
            if pname in RESETTING and (res[0] == "ret" or landed or faulted) and got and not in_cleanup:
                counters["resets_checked"] += 1
                if abs(got[-1] - x0) > 1e-12 * max(1.0, abs(x0)):
                    problems.append((f"not-returned-to-initial-position:exit={exit_kind if (landed or faulted) else 'success'}:{kd}",
                                     f"{m.name} ({kd}): initial {x0}, last commanded {got[-1]}, sets {got}"))
            # every body target is one of the documented targets (grids repeat the inner axis; interrupted runs are prefixes)
            allowed = exp
            for t in body:
                counters["targets_checked"] += 1
                if not any(abs(t - x) <= 1e-12 * max(1.0, abs(x)) for x in allowed):
                    problems.append((f"target-is-not-initial-plus-offset:{kd}", f"{m.name} ({kd}): initial {x0}, commanded {t}, documented targets {exp}"))
                    break
            if res[0] == "ret" and not grid_like and len(body) != len(exp) and not (landed or faulted):
                # skipped sets for an unchanged position are equivalent; only judge when all targets differ pairwise
                if len(set(exp)) == len(exp) and all(abs(exp[0] - x0) > 0 for _ in [0]):
                    distinct_moves = sum(1 for j, x in enumerate(exp) if j == 0 and abs(x - x0) > 0 or j > 0 and abs(x - exp[j - 1]) > 0)
                    if len(body) < distinct_moves:
                        problems.append((f"target-missing:{kd}", f"{m.name}: commanded {body}, documented {exp}"))
        key = f"{pname}|{sorted(kinds)}|exit={exit_kind if (landed or faulted or exit_kind == 'success') else 'success(not-landed)'}"
        if problems:
            seen = set()
            for kdn, detail in problems:
                sig = f"C24:{pname}:{kdn}"
                if sig in seen:
                    continue
                seen.add(sig)
                out.append(R("violated", key + "|" + kdn, True, sig=sig, detail=detail,
                             witness={"plan": pname, "kinds": kinds, "initial": init, "sets": jsonable(sets), "exit": exit_kind,
                                      "result": repr(res)[:120]}, counters=counters, case=sub))
                counters = {}
        else:
            out.append(R("held", key, True, counters=counters,
                         sample={"plan": pname, "kinds": kinds, "initial": init, "sets": jsonable(sets), "exit": exit_kind}
                         if (landed or faulted) and pname in RESETTING else None))
    return out
