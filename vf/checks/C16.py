"""C16 — descriptors carry the device configuration current when they were made."""

from __future__ import annotations

from bluesky.utils import Msg

from vf.common import rng_for
from vf.devices import CfgSig, Det
from vf.oracles.common import quiet_logging
from vf.reh import Harness
from vf.worker import R

PROPERTY = "C16"
LEVEL = "exploration"
RULE = ("case = one RunEngine execution of a seeded plan interleaving configure(obj) with bundles on two bundle streams "
        "(overlapping object sets), bundles that are read and then dropped, updates of a monitored configurable signal, and a pause/resume; every fake's "
        "configuration is a counter incremented by configure; oracle: each descriptor's configuration[obj].data equals the "
        "counter at the moment the descriptor was emitted; after configure(obj) the next event of every stream containing "
        "obj references a descriptor emitted after that configure, with the new configuration and unchanged data_keys; "
        "judged per stream kind (bundle / monitor); distinct = (stream kind, #configures, position pattern)")
ASSUMPTIONS = ["the configuration value is a per-device counter, so 'current configuration' is unambiguous"]
REQUIRED_COUNTERS = {"executions": 200, "descriptors_checked": 600, "events_after_configure_checked": 300,
                     "monitor_events_after_configure": 50}
MANIFEST = {
    "technique": "ledger-vs-document oracle (configuration counters at descriptor time, descriptor freshness per event) "
                 "on seeded configure/bundle/monitor interleavings executed by the real engine",
    "category": "exploration",
    "text": "Seeded plans configure counting fakes between bundles and monitor updates; each descriptor's recorded "
            "configuration and each later event's descriptor are compared with the device ledger.",
    "note": "Sampled plans; bundle and monitor stream kinds (collect streams: C45).",
    "design_ref": "4 (C16)",
}


def worker_init(tier, seed):
    quiet_logging()


def gen_cases(tier, seed):
    n = 240 if tier == "quick" else 4000
    return [{"start": s, "count": 15, "seed": seed} for s in range(0, n, 15)]


STREAMS = {"primary": ["a", "b"], "aux": ["b", "c"]}


def run_case(case):
    out = []
    for i in range(case["start"], case["start"] + case["count"]):
        rng = rng_for(case["seed"], "C16", i)
        sub = {"start": i, "count": 1, "seed": case["seed"]}
        h = Harness()
        devs = {nm: Det(nm, h.log, delay=None) for nm in "abc"}
        sig = CfgSig("sig", h.log)
        devs["sig"] = sig
        steps = []
        for _ in range(rng.randint(6, 22)):
            r = rng.random()
            if r < 0.37:
                steps.append(("bundle", rng.choice(list(STREAMS))))
            elif r < 0.45:
                steps.append(("dropped", rng.choice(list(STREAMS))))  # objects are read, the bundle is dropped
            elif r < 0.7:
                steps.append(("configure", rng.choice(["a", "b", "c", "sig"])))
            elif r < 0.9:
                steps.append(("put", None))
            else:
                steps.append(("checkpoint", None))
        use_monitor = rng.random() < 0.8

        def plan():
            yield Msg("open_run")
            if use_monitor:
                yield Msg("monitor", sig, name="sig_mon")
            v = 0
            for k, (op, arg) in enumerate(steps):
                h.log.append(("plan", "step", k, op, arg))
                if op == "bundle":
                    yield Msg("create", name=arg)
                    for o in STREAMS[arg]:
                        yield Msg("read", devs[o])
                    yield Msg("save")
                elif op == "dropped":
                    yield Msg("create", name=arg)
                    for o in STREAMS[arg]:
                        yield Msg("read", devs[o])
                    yield Msg("drop")
                elif op == "configure":
                    yield Msg("configure", devs[arg])
                elif op == "put":
                    v += 1
                    sig.put(v)
                    yield Msg("null")
                else:
                    yield Msg("checkpoint")
            if use_monitor:
                yield Msg("unmonitor", sig)
            yield Msg("close_run")

        r = h.call("RE", h.RE, plan())
        h.close()
        log = h.log
        problems = []
        counters = {"executions": 1, "descriptors_checked": 0, "events_after_configure_checked": 0,
                    "monitor_events_after_configure": 0}
        if r[0] != "ret":
            problems.append((f"call-failed:{type(r[1]).__name__}", repr(r[1])))
        cfg = {nm: 0 for nm in devs}
        last_cfg_idx = {nm: -1 for nm in devs}
        desc = {}          # uid -> (log idx, doc)
        latest = {}        # stream -> uid
        members = dict(STREAMS, sig_mon=["sig"])
        first_keys = {}
        ncfg = 0
        for j, e in enumerate(log):
            if e[0] == "dev" and e[2] == "configure":
                cfg[e[1]] += 1
                last_cfg_idx[e[1]] = j
                ncfg += 1
            elif e[0] == "doc" and e[1] == "descriptor":
                d = e[2]
                name = d.get("name")
                if name not in members:
                    continue
                counters["descriptors_checked"] += 1
                desc[d["uid"]] = (j, d)
                latest[name] = d["uid"]
                kind = "monitor" if name == "sig_mon" else "bundle"
                for o in members[name]:
                    conf = d.get("configuration", {}).get(o, {}).get("data", {})
                    got = conf.get(o + "_cfg")
                    if got != cfg[o]:
                        problems.append((f"descriptor-records-stale-configuration:{kind}",
                                         f"descriptor of {name} at log {j}: {o}_cfg={got}, device reports {cfg[o]}"))
                keys = sorted(d["data_keys"])
                if name in first_keys and first_keys[name] != keys:
                    problems.append((f"data_keys-changed-after-configure:{kind}", f"{name}: {first_keys[name]} -> {keys}"))
                first_keys.setdefault(name, keys)
            elif e[0] == "doc" and e[1] == "event":
                ev = e[2]
                if ev["descriptor"] not in desc:
                    continue
                dj, d = desc[ev["descriptor"]]
                name = d.get("name")
                kind = "monitor" if name == "sig_mon" else "bundle"
                newest_cfg = max(last_cfg_idx[o] for o in members[name])
                if newest_cfg >= 0:
                    counters["events_after_configure_checked"] += 1
                    counters["monitor_events_after_configure"] += int(kind == "monitor")
                    if dj < newest_cfg:
                        problems.append((f"event-references-descriptor-older-than-configure:{kind}",
                                         f"event seq {ev['seq_num']} of {name} at log {j} uses the descriptor of log {dj}; "
                                         f"an object of the stream was configured at log {newest_cfg}"))
        key = f"mon={use_monitor}|ncfg={min(ncfg, 4)}|{''.join(s[0][0] for s in steps)[:14]}"
        if problems:
            seen = set()
            for kd, detail in problems:
                sig_ = f"C16:{kd}"
                if sig_ in seen:
                    continue
                seen.add(sig_)
                out.append(R("violated", key + "|" + kd, True, sig=sig_, detail=detail, witness={"steps": steps, "monitor": use_monitor},
                             counters=counters, case=sub))
                counters = {}
        else:
            out.append(R("held", key, ncfg > 0, counters=counters,
                         sample={"steps": steps, "monitor": use_monitor} if ncfg >= 2 and len(steps) < 12 else None))
    return out
