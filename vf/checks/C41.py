"""C41 — monitors report only while their run is open and running."""

from __future__ import annotations

from vf import sweepcheck
from vf.oracles.common import landing_info, lost_uncacheable, outcome_class, spec_json
from vf.worker import R

PROPERTY = "C41"
LEVEL = "exploration"
RULE = ("case = one execution of plan 'custom_mon' / 'mon2' (a signal monitored inside a run, updated by virtual-time timers "
        "with a unique value per update, before monitoring, during, after unmonitor and after the run) with a pause (resumed "
        "after the loop has idled, so that updates fall inside the pause) or a suspension (release after 0.3 virtual s) "
        "landing after EVERY loop handle, and with abort/stop; per update: exactly one event with that value iff the signal "
        "was monitored, the run open and the engine neither paused nor between suspension start and the resume step; "
        "never two events for one update; after unmonitor / run end / call end the signal holds no engine callback; "
        "distinct = (plan, kind, command at landing, set of update classes seen); non-trivial = >=1 update fell inside a "
        "pause or suspension")
ASSUMPTIONS = ["updates whose log position is within 2 entries of a state change are not judged (transitional windows)",
               "the fake signal calls its subscribers synchronously from put(), like ophyd"]
REQUIRED_COUNTERS = {"executions": 300, "updates_judged": 1500, "updates_while_paused": 100, "updates_while_suspended": 100,
                     "updates_reported": 500, "subscription_checks": 300, "run_stops_seen": 300}
MANIFEST = {
    "technique": "per-update oracle (expected 0/1 events from the engine state at the update's log position) + leftover "
                 "subscription check on the fake signal, over a pause/suspend coordinate sweep in virtual time",
    "category": "exploration",
    "text": "A monitored fake signal is updated by virtual-time timers with unique values while pauses and suspensions "
            "land at every loop handle; every update must be reported exactly when the engine is running inside the open "
            "run, and no engine callback may remain on the signal afterwards.",
    "note": "Monitor plans x all coordinates x 4 kinds, request pairs around the first monitor message, a document consumer writing to the signal on RunStop.",
    "design_ref": "3 (C41)",
}
PLANS_Q = ["custom_mon", "mon2"]
PLANS_T = PLANS_Q
SHARD_TIMEOUT = {"quick": 900, "thorough": 3600}
worker_init = sweepcheck.worker_init


def gen_cases(tier, seed):
    cases = sweepcheck.gen_cases(tier, seed, PLANS_Q, PLANS_T, ["pause", "suspend", "abort", "stop"], nslices=(4, 4),
                                 pairs=[("pause", "suspend"), ("suspend", "pause"), ("suspend", "suspend")])
    # a document consumer that updates the monitored signal when it sees the RunStop (run closed with monitors still on)
    cases.append({"plan": "mon_closeleft", "docput": True, "seed": seed})
    for k in ("pause", "abort", "stop"):
        cases.append({"plan": "mon_closeleft", "kind": k, "slice": [0, 1], "seed": seed, "spec_extra": {"doc_put": ["stop", "sig"]}})
    # an interruption BEFORE the first monitor message and a second one after it
    for k1, k2 in (("pause", "pause"), ("suspend", "pause"), ("pause", "suspend")):
        cases.append({"plan": "mon2", "before_after_monitor": [k1, k2], "seed": seed})
    return cases


def judge(ex, ref, case):
    li = landing_info(ex, len(ref.h.msgs()))
    key0 = f"{ex.spec['plan']}|" + ("+".join(f"{x['kind']}@{x['command']}" for x in li) or "none")
    if ex.timeout or ex.stuck or ex.final_state != "idle":
        return [R("inconclusive", key0, detail="engine did not come back idle (judged by C07)")]
    if not li and not ex.spec.get("doc_put"):
        return [R("skip", key0, False)]
    log = ex.log
    end = next((i for i, e in enumerate(log) if (e[0] == "call" and e[1] == "probe") or e[0] == "harness"), len(log))
    # events of the monitor stream by value
    # events caused by an update are those logged between its 'put' and 'put-done' ledger entries (the fake signal calls
    # its subscribers synchronously); events emitted by the initial callback of a (re-)subscription are not updates
    mon_desc = set()
    reported = {}
    cur = None
    for i, e in enumerate(log[:end]):
        if e[0] == "doc" and e[1] == "descriptor" and e[2].get("name") == "sig_mon":
            mon_desc.add(e[2]["uid"])
        elif e[0] == "dev" and e[1] == "sig" and e[2] == "put":
            cur = e[3]
            reported.setdefault(cur, [])
        elif e[0] == "dev" and e[1] == "sig" and e[2] == "put-done":
            cur = None
        elif e[0] == "doc" and e[1] == "event" and e[2]["descriptor"] in mon_desc and cur is not None:
            reported[cur].append(i)
    state = "idle"
    monitored = False
    monitor_pending = False
    run_open = 0
    susp = 0
    problems = []
    counters = {"executions": 1, "updates_judged": 0, "updates_while_paused": 0, "updates_while_suspended": 0,
                "updates_reported": 0, "subscription_checks": 0}
    classes = set()
    change_idx = [i for i, e in enumerate(log[:end]) if e[0] == "state" or (e[0] == "msg" and e[1].command in
                  ("monitor", "unmonitor", "_start_suspender", "_resume_from_suspender", "open_run", "close_run"))
                  or (e[0] == "dev" and e[1] == "sig" and e[2] in ("subscribe", "clear_sub")) or (e[0] == "doc" and e[1] in ("start", "stop"))]
    import bisect

    for i, e in enumerate(log[:end]):
        if e[0] == "state":
            state = e[1]
        elif e[0] == "doc" and e[1] == "start":
            run_open += 1
        elif e[0] == "doc" and e[1] == "stop":
            run_open -= 1
            monitored = False
        elif e[0] == "dev" and e[1] == "sig" and e[2] == "subscribe":
            if monitor_pending:
                monitored, monitor_pending = True, False
        elif e[0] == "msg" and e[1].command == "monitor":
            # monitored from the moment the engine subscribes (a 'monitor' interrupted in mid-flight is run again later)
            monitor_pending = True
        elif e[0] == "msg" and e[1].command == "unmonitor":
            monitored = False
        elif e[0] == "msg" and e[1].command == "_start_suspender":
            susp += 1
        elif e[0] == "call" and e[1] == "resume":
            # pausing and resuming a suspended plan is the documented way of taking manual control: the hold is over
            susp = 0
        elif e[0] == "msg" and e[1].command == "_resume_from_suspender":
            susp = max(0, susp - 1)
        elif e[0] == "dev" and e[1] == "sig" and e[2] == "put":
            v = e[3]
            n = len(reported.get(v, []))
            if n > 1:
                problems.append(("update-reported-twice", f"update {v} produced {n} events"))
                continue
            # transitional window?
            k = bisect.bisect_left(change_idx, i)
            near = [c for c in change_idx[max(0, k - 1):k + 1] if abs(c - i) <= 2]
            if near:
                continue
            counters["updates_judged"] += 1
            should = monitored and run_open > 0 and state == "running" and susp == 0
            cls = ("paused" if state == "paused" else "suspended" if susp else "running" if state == "running" else state) + \
                ("" if monitored and run_open > 0 else "-unmonitored")
            classes.add(cls)
            if state == "paused" and monitored:
                counters["updates_while_paused"] += 1
            if susp and monitored:
                counters["updates_while_suspended"] += 1
            if n == 1:
                counters["updates_reported"] += 1
            if should and n == 0:
                problems.append((f"update-not-reported:{cls}", f"update {v} at log {i} (state {state}) produced no event"))
            elif not should and n == 1 and state in ("paused",) or (not should and n == 1 and susp and state == "running"):
                problems.append((f"update-reported-while-{cls}", f"update {v} at log {i} was reported although the engine was {cls}"))
            elif not should and n == 1 and not monitored:
                problems.append(("update-reported-while-not-monitored", f"update {v} at log {i}"))
    # document order: no event of a monitor stream after the RunStop of its run (whatever the timing of the update)
    desc_run = {e[2]["uid"]: e[2]["run_start"] for e in log[:end] if e[0] == "doc" and e[1] == "descriptor"}
    stopped = set()
    for e in log[:end]:
        if e[0] == "doc" and e[1] == "stop":
            stopped.add(e[2]["run_start"])
            counters["run_stops_seen"] = counters.get("run_stops_seen", 0) + 1
        elif e[0] == "doc" and e[1] == "event" and e[2]["descriptor"] in mon_desc and desc_run.get(e[2]["descriptor"]) in stopped:
            problems.append(("monitor-event-after-RunStop", f"event seq {e[2]['seq_num']} of the monitor stream after its run's RunStop"))
            break
    counters["subscription_checks"] = 1
    sig = ex.devices["sig"]
    if sig.subs:
        problems.append((f"engine-callback-left-on-signal:{len(sig.subs)}", f"{len(sig.subs)} callback(s) still subscribed after the call"))
    # after unmonitor: no callback either (ledger at that moment)
    key = f"{key0}|{sorted(classes)}|{outcome_class(ex)}"
    if problems:
        lost = lost_uncacheable(ex)
        out, seen = [], set()
        for kd, detail in problems:
            sig_ = f"C41:{kd}:{'+'.join(sorted({x['kind'] for x in li}))}" if not lost else f"C41:interrupted-uncacheable-command-lost:{lost}"
            if sig_ in seen:
                continue
            seen.add(sig_)
            out.append(R("violated", key + "|" + kd, True, sig=sig_, detail=f"{key}: {detail}",
                         witness={"spec": spec_json(ex.spec), "landing": li,
                                  "reported": {str(k): len(v) for k, v in reported.items()}},
                         counters=counters, case={"replay_spec": spec_json(ex.spec)}))
            counters = {}
        return out
    return [R("held", key, bool(classes & {"paused", "suspended"}), counters=counters,
              sample={"plan": ex.spec["plan"], "inj": [i[:3] for i in ex.spec.get("inj", [])], "update_classes": sorted(classes),
                      "reported_values": sorted(k for k in reported if k is not None)} if "paused" in classes or "suspended" in classes else None)]


def run_case(case):
    from vf.sweep import execute, reference_coords

    if case.get("docput"):
        spec = {"plan": case["plan"], "doc_put": ["stop", "sig"], "decisions": []}
        ref, _ = reference_coords({"plan": case["plan"]})
        return judge(execute(spec), ref, case)
    if case.get("before_after_monitor"):
        k1, k2 = case["before_after_monitor"]
        ref, coords = reference_coords({"plan": case["plan"]})
        nmon = next(n for n, m in enumerate(ref.h.msgs(), 1) if m.command == "monitor")
        before = [c for c in coords if 1 <= c[0] < nmon][::3]
        after = [c for c in coords if c[0] > nmon + 1][2::7]
        from vf.checks.C11 import params_for

        out = []
        for c1 in before:
            for c2 in after[:6]:
                inj = [[c1[0], c1[1], k1, params_for(k1) if k1 != "pause" else {}],
                       [c2[0], c2[1], k2, params_for(k2) if k2 != "pause" else {}]]
                out += judge(execute({"plan": case["plan"], "inj": inj, "decisions": ["resume"] * 4}), ref, case)
        return out
    return sweepcheck.run_case(case, judge, decisions=(), first_decisions=("resume", "resume", "resume"))
