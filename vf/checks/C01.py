"""C01 — every opened run is a well-formed document stream, whatever happens."""

from __future__ import annotations

from vf import sweepcheck
from vf.oracles.common import landing_info, outcome_class, spec_json
from vf.oracles.docs import check_stream
from vf.sweep import KINDS
from vf.worker import R

PROPERTY = "C01"
LEVEL = "exploration"
RULE = ("case = one execution of a corpus plan (built-in count/scan/grid/list/rel scans, hand-written plans with nested "
        "run keys, bundles, monitors, flyers, try/finally cleanup, a run left open, a failing plan) with a request of kind "
        "k in {pause, deferred pause, abort, stop, halt, suspend} landing after EVERY loop handle, or a device failure "
        "(raise / failed status now / failed status later) at every device operation, followed by every post-pause "
        "decision; the recorded document stream is checked when the engine is idle again; distinct = (plan, command at "
        "landing, state at landing, kind, outcome class); non-trivial = >=1 run was open when the request landed")
ASSUMPTIONS = ["event_model.schema_validators is the schema oracle", "the recorder is the first subscriber (sees every "
               "document even when later callbacks raise)", "panicked/SIGINT path not exercised"]
REQUIRED_COUNTERS = {"executions": 1000, "docs_checked": 5000, "schema_validated": 5000, "runs_open_at_landing": 300,
                     "device_fault_executions": 50}
MANIFEST = {
    "technique": "offline single-pass document-stream checker (lifecycle, references, uid uniqueness, event-model schema) "
                 "over an exhaustive injection-coordinate sweep + device-fault enumeration",
    "category": "exploration",
    "text": "Every interruption kind lands after every loop handle of every corpus plan, every device operation is made "
            "to fail in three modes, and every post-pause decision is taken; each resulting document stream is checked in "
            "full once the engine is idle.",
    "note": "Decides the executions produced: corpus plans x all coordinates x kinds x decisions x fault points.",
    "design_ref": "3 (C01)",
}

PLANS_Q = ["scan", "custom", "neverclose", "nested", "fly", "clearcp", "two_runs", "rw_fail", "count", "mon_closeleft"]
PLANS_T = PLANS_Q + ["grid", "list_scan", "rel_scan", "norun"]
SHARD_TIMEOUT = {"quick": 900, "thorough": 3600}
worker_init = sweepcheck.worker_init


def gen_cases(tier, seed):
    cases = sweepcheck.gen_cases(tier, seed, PLANS_Q, PLANS_T, KINDS, pairs=[("pause", "suspend"), ("suspend", "pause"),
                                                                               ("suspend", "suspend"), ("defer", "abort")])
    for p in (PLANS_Q if tier == "quick" else PLANS_T):
        cases.append({"plan": p, "faults": True, "seed": seed})
    return cases


def judge(ex, ref, case):
    li = landing_info(ex, len(ref.h.msgs()))
    docs = ex.h.docs()
    # how many runs were open when the (first) request landed
    open_at = 0
    if li:
        n_open = 0
        for e in ex.log:
            if e[0] == "doc" and e[1] == "start":
                n_open += 1
            elif e[0] == "doc" and e[1] == "stop":
                n_open -= 1
            elif e[0] == "inject":
                open_at = n_open
                break
    faults = [e for e in ex.log if e[0] == "fault"]
    lk = "+".join(f"{x['kind']}@{x['command']}/{x['state']}" for x in li) or ("fault:" + "+".join(f"{e[1]}.{e[2]}:{e[3]}" for e in faults) if faults else "none")
    key = f"{ex.spec['plan']}|{lk}|{outcome_class(ex)}"
    if ex.timeout or ex.stuck:
        return [R("inconclusive", key, detail="engine did not come back (judged by C07)")]
    idle = ex.final_state == "idle"
    problems, counts, runs = check_stream(docs, engine_idle=idle)
    counters = {"executions": 1, "docs_checked": counts["docs"], "schema_validated": counts["schema_validated"],
                "runs_open_at_landing": int(open_at > 0), "device_fault_executions": int(bool(faults))}
    if not li and not faults:
        return [R("skip", key, False, counters={"executions": 1})]
    if problems:
        out, seen = [], set()
        where = "+".join(x["kind"] for x in li) or "device-fault"
        for kind, detail in problems:
            sig = f"C01:{kind}:{where}"
            if sig in seen:
                continue
            seen.add(sig)
            out.append(R("violated", key + "|" + kind, True, sig=sig, detail=f"{key}: {detail}",
                         witness={"spec": spec_json(ex.spec), "landing": li, "docs": [(n, d.get("uid", d.get("datum_id"))) for n, d in docs][:60]},
                         counters=counters, case={"replay_spec": spec_json(ex.spec)}))
            counters = {}
        return out
    return [R("held", key, open_at > 0 or bool(faults), counters=counters,
              sample={"plan": ex.spec["plan"], "inj": ex.spec.get("inj"), "faults": ex.spec.get("faults"),
                      "decisions": ex.spec.get("decisions"), "calls": outcome_class(ex),
                      "docs": [n for n, _ in docs]} if open_at > 0 and len(docs) > 6 else None)]


def run_case(case):
    if case.get("faults"):
        return run_faults(case)
    return sweepcheck.run_case(case, judge)


def run_faults(case):
    """Device-failure enumeration: every (device, op, nth) of the reference x 3 modes."""
    from vf.sweep import execute, reference_coords

    ref, _ = reference_coords({"plan": case["plan"]})
    ops = []
    counts = {}
    for e in ref.log:
        if e[0] == "dev" and e[2] in ("set", "trigger", "read", "stage", "unstage", "kickoff", "complete", "collect",
                                      "describe_collect", "stop", "subscribe", "clear_sub", "configure"):
            k = (e[1], e[2])
            counts[k] = counts.get(k, 0) + 1
            ops.append((e[1], e[2], counts[k]))
    out = []
    for (dev, op, n) in ops:
        modes = ["raise"] + (["fail-now", "fail-later"] if op in ("set", "trigger", "kickoff", "complete") else [])
        for mode in modes:
            ex = execute({"plan": case["plan"], "faults": [[[dev, op, n], mode]], "decisions": []})
            out += judge(ex, ref, case)
    return out
