"""C27 — spiral patterns stay in bounds; square spirals cover the grid exactly once."""

from __future__ import annotations

import math

from vf.common import chunked, rng_for
from vf.worker import R

PROPERTY = "C27"
LEVEL = "exploration"
RULE = ("case = one call of spiral / spiral_fermat / spiral_square_pattern with seeded parameters; distinct = "
        "(pattern, tilt class, aspect class dr_y<dr|=|>dr, size class) for spirals and (x_num, y_num) for the square "
        "pattern (all 2..12 x 2..12 quick, 2..24 thorough, x 3 geometries); non-trivial = pattern produced >= 4 points")
ASSUMPTIONS = ["'requested rectangle' = |y-y0| <= y_range/2 and |x-x0| <= x_range/2; for tilt != 0 the x clause is "
               "judged on the sheared coordinate x + y*tan(tilt) and only when dr_y is unset (aspect 1); with tilt != 0 and "
               "aspect != 1 only the y clause is judged", "tolerance 1e-9 * range"]
REQUIRED_COUNTERS = {"spiral_points_checked": 1000, "fermat_points_checked": 1000, "square_grids": 50,
                     "aspect_lt1_cases": 5, "tilted_cases": 5}
MANIFEST = {
    "technique": "post-condition oracle on every point of the real pattern generators over seeded parameter classes; "
                 "exhaustive grid sizes for the square spiral",
    "category": "exploration",
    "text": "Each generated parameter vector is run through the real generator; every emitted point is tested against "
            "the requested rectangle, and the square pattern against the exact grid (each index once).",
    "note": "Bounds interpreted as stated in ASSUMPTIONS; float tolerance 1e-9 relative.",
    "design_ref": "6 (C27)",
}


def gen_cases(tier, seed):
    rng = rng_for(seed, "C27")
    cases = []
    n = 400 if tier == "quick" else 6000
    spir = []
    for i in range(n):
        x_range = rng.choice([1.0, 2.0, 0.37, 10.0, rng.uniform(0.1, 50)])
        y_range = rng.choice([1.0, 2.0, 0.5, 7.0, rng.uniform(0.1, 50)])
        small = min(x_range, y_range)
        dr = small / rng.choice([2, 3, 5, 8, 13])
        aspect_class = rng.choice(["none", "lt", "gt", "eq"])
        dr_y = {"none": None, "lt": dr * rng.choice([0.3, 0.5, 0.61, 0.9]), "gt": dr * rng.choice([1.2, 2.0, 3.3]),
                "eq": dr}[aspect_class]
        tilt = rng.choice([0.0, 0.0, 0.1, -0.2, 0.5, 1.0, -0.9])
        spir.append({"fn": rng.choice(["spiral", "spiral_fermat"]), "x0": rng.choice([0.0, 1.5, -20.0]),
                     "y0": rng.choice([0.0, -3.25, 100.0]), "x_range": x_range, "y_range": y_range, "dr": dr,
                     "dr_y": dr_y, "aspect_class": aspect_class, "tilt": tilt, "nth": rng.choice([1, 2, 3, 5, 8, 10.5]),
                     "factor": rng.choice([0.5, 1.0, 1.7, 3.0])})
    for ch in chunked(spir, 25):
        cases.append({"kind": "spiral", "items": ch})
    top = 12 if tier == "quick" else 24
    sq = []
    geoms = [(0.0, 0.0, 1.0, 1.0), (3.5, -2.0, 7.0, 0.3), (-100.0, 1e-3, 1e-2, 55.0)]
    for xn in range(2, top + 1):
        for yn in range(2, top + 1):
            for g in geoms:
                sq.append({"x_num": xn, "y_num": yn, "geom": g})
    for _ in range(30 if tier == "quick" else 300):
        sq.append({"x_num": rng.randint(2, 40), "y_num": rng.randint(2, 40),
                   "geom": (rng.uniform(-5, 5), rng.uniform(-5, 5), rng.uniform(0.1, 9), rng.uniform(0.1, 9))})
    for ch in chunked(sq, 40):
        cases.append({"kind": "square", "items": ch})
    return cases


def run_case(case):
    from bluesky import plan_patterns as pp

    out = []
    if case["kind"] == "spiral":
        for it in case["items"]:
            fn = it["fn"]
            tilt_class = "tilt0" if it["tilt"] == 0 else "tilted"
            key = f"{fn}|{tilt_class}|{it['aspect_class']}|nth={it['nth']}|ratio={round(it['x_range'] / it['y_range'], 1)}"
            kw = {"dr_y": it["dr_y"], "tilt": it["tilt"]}
            try:
                if fn == "spiral":
                    cyc = pp.spiral("x", "y", it["x0"], it["y0"], it["x_range"], it["y_range"], it["dr"], it["nth"], **kw)
                else:
                    cyc = pp.spiral_fermat("x", "y", it["x0"], it["y0"], it["x_range"], it["y_range"], it["dr"],
                                           it["factor"], **kw)
                pts = [(row["x"], row["y"]) for row in cyc]
            except Exception as e:  # noqa: BLE001
                # An empty pattern makes the cycler package raise StopIteration. The property only speaks about the
                # points that are produced, so a call that produces no pattern is not judged (counted, never silent).
                out.append(R("skip", key, False, detail=f"no pattern produced: {type(e).__name__}",
                             counters={"spiral_calls_raising": 1}))
                continue
            aspect = 1.0 if it["dr_y"] is None else it["dr_y"] / it["dr"]
            hx, hy = it["x_range"] / 2, it["y_range"] / 2
            tol_x, tol_y = 1e-9 * max(it["x_range"], 1e-300), 1e-9 * max(it["y_range"], 1e-300)
            bad = None
            for (x, y) in pts:
                dx, dy = x - it["x0"], y - it["y0"]
                if abs(dy) > hy + tol_y + 1e-12 * abs(it["y0"]):
                    bad = ("y-out-of-range", x, y, abs(dy) / hy)
                    break
                if it["tilt"] == 0:
                    if abs(dx) > hx + tol_x + 1e-12 * abs(it["x0"]):
                        bad = ("x-out-of-range", x, y, abs(dx) / hx)
                        break
                elif aspect == 1.0:
                    if abs(dx + dy * math.tan(it["tilt"])) > hx + 1e-9 * (it["x_range"] + it["y_range"]) + 1e-12 * abs(it["x0"]):
                        bad = ("x-out-of-tilted-range", x, y, abs(dx + dy * math.tan(it["tilt"])) / hx)
                        break
            counters = {("spiral_points_checked" if fn == "spiral" else "fermat_points_checked"): len(pts),
                        "aspect_lt1_cases": int(it["aspect_class"] == "lt"), "tilted_cases": int(it["tilt"] != 0)}
            if bad:
                acls = "dr_y<dr" if aspect < 1 else ("dr_y>dr" if aspect > 1 else "aspect1")
                out.append(R("violated", key, True, sig=f"C27:{fn}:{bad[0]}:{acls}:{tilt_class}",
                             detail=f"point ({bad[1]}, {bad[2]}) at {bad[3]:.3f} x half-range; params={it}",
                             witness={"params": it, "point": [bad[1], bad[2]], "ratio_to_half_range": bad[3]},
                             counters=counters, case={"kind": "spiral", "items": [it]}))
            else:
                out.append(R("held", key, len(pts) >= 4, counters=counters,
                             sample={"fn": fn, "params": it, "n_points": len(pts), "first": pts[:3]} if len(pts) > 10 else None))
    else:
        for it in case["items"]:
            xn, yn = it["x_num"], it["y_num"]
            xc, yc, xr, yr = it["geom"]
            key = f"square|{xn}x{yn}"
            try:
                cyc = pp.spiral_square_pattern("x", "y", xc, yc, xr, yr, xn, yn)
                pts = [(row["x"], row["y"]) for row in cyc]
            except Exception as e:  # noqa: BLE001
                out.append(R("violated", key, True, sig=f"C27:square:raises:{type(e).__name__}", detail=repr(e),
                             witness=it, case={"kind": "square", "items": [it]}))
                continue
            dx, dy = xr / (xn - 1), yr / (yn - 1)
            seen = {}
            problem = None
            for (x, y) in pts:
                fi = (x - xc) / dx + (xn - 1) / 2
                fj = (y - yc) / dy + (yn - 1) / 2
                i, j = round(fi), round(fj)
                if abs(fi - i) > 1e-6 or abs(fj - j) > 1e-6 or not (0 <= i < xn and 0 <= j < yn):
                    problem = ("off-grid-point", (x, y))
                    break
                seen[(i, j)] = seen.get((i, j), 0) + 1
            if not problem:
                dup = [k for k, n in seen.items() if n > 1]
                missing = [(i, j) for i in range(xn) for j in range(yn) if (i, j) not in seen]
                if dup:
                    problem = ("duplicate-grid-point", dup[:5])
                elif missing:
                    problem = ("missing-grid-point", missing[:5])
            counters = {"square_grids": 1}
            if problem:
                par = f"{'even' if xn % 2 == 0 else 'odd'}x{'even' if yn % 2 == 0 else 'odd'}"
                out.append(R("violated", key, True, sig=f"C27:square:{problem[0]}:{par}",
                             detail=f"x_num={xn} y_num={yn} geom={it['geom']} {problem[1]} npts={len(pts)}",
                             witness={"params": it, "problem": problem, "n_points": len(pts)}, counters=counters,
                             case={"kind": "square", "items": [it]}))
            else:
                out.append(R("held", key, True, counters=counters,
                             sample={"fn": "spiral_square_pattern", "x_num": xn, "y_num": yn, "first": pts[:4]}
                             if xn == 3 and yn == 4 else None))
    return out
