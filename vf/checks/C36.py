"""C36 — stream datums concatenate and consolidate into consistent array shapes."""

from __future__ import annotations

from vf.common import jsonable, rng_for
from vf.worker import R

PROPERTY = "C36"
LEVEL = "exploration"
RULE = ("two case families. (a) concatenate_stream_datums on a seeded set of 1..6 datums: tilings of an index interval in "
        "shuffled order (must be accepted, result = [min start, max stop) for indices and seq_nums) and the same with one "
        "defect in {gap, overlap, duplicate, gap and overlap of equal size, other descriptor, other resource} (must raise ValueError); distinct = (n, "
        "defect, order class). (b) a consolidator (base/CSV/HDF5) built from seeded (datum shape, chunk_shape, join_method, "
        "join_chunks, multiplier) consuming a seeded StreamDatum sequence; after construction and after every consume "
        "len(chunks)==len(shape), sum(chunks[d])==shape[d] and the seq_num->index map equals an independently built dict; "
        "distinct = (class, join_method, join_chunks, ndim, chunk ndim, multiplier class); non-trivial = >=2 datums / >=1 consume")
ASSUMPTIONS = ["zero-length datums and index-contiguous sets with seq_num gaps are not judged",
               "chunk_shape longer than the data shape is a documented ValueError and is not judged"]
REQUIRED_COUNTERS = {"concat_accept_expected": 100, "concat_reject_expected": 100, "chunk_checks": 500, "seqmap_checks": 200}
MANIFEST = {
    "technique": "reference-oracle differential on real concatenate_stream_datums + invariant check (chunks sum to shape, "
                 "seq_num map) on live consolidator objects after every consumed datum",
    "category": "exploration",
    "text": "Seeded datum sets (valid tilings in any order and single-defect variants) and seeded consolidator "
            "configurations are run through the real code; acceptance, combined ranges, chunk sums and the seq_num map "
            "are compared with an independent model.",
    "note": "Sampled parameter space; model is ~30 lines in the check module.",
    "design_ref": "6 (C36)",
}


def gen_cases(tier, seed):
    n = 800 if tier == "quick" else 15000
    cases = [{"kind": "concat", "start": s, "count": 50, "seed": seed} for s in range(0, n, 50)]
    cases += [{"kind": "cons", "start": s, "count": 40, "seed": seed} for s in range(0, n, 40)]
    return cases


def _sd(uid, a, b, desc="d1", res="r1", seq_off=1):
    return {"uid": uid, "stream_resource": res, "descriptor": desc, "indices": {"start": a, "stop": b},
            "seq_nums": {"start": a + seq_off, "stop": b + seq_off}}


def _concat_case(rng, i):
    n = rng.choice([1, 2, 2, 3, 4, 6])
    start = rng.choice([0, 0, 5, 100])
    cuts = [start]
    for _ in range(n):
        cuts.append(cuts[-1] + rng.randint(1, 5))
    seq_off = rng.choice([1, 1, 4])
    docs = [_sd(f"u{k}", cuts[k], cuts[k + 1], seq_off=seq_off) for k in range(n)]
    defect = rng.choice(["none", "none", "gap", "overlap", "duplicate", "descriptor", "resource", "gap+overlap"]) if n >= 2 else "none"
    if defect == "gap+overlap" and n < 3:
        defect = "gap"
    if defect == "gap":
        k = rng.randrange(1, n)
        g = rng.randint(1, 3)
        for d in docs[k:]:
            d["indices"] = {"start": d["indices"]["start"] + g, "stop": d["indices"]["stop"] + g}
            d["seq_nums"] = {"start": d["seq_nums"]["start"] + g, "stop": d["seq_nums"]["stop"] + g}
    elif defect == "gap+overlap":
        # a duplicated block and a missing block of the SAME size (row count and span still agree)
        k = rng.randrange(2, n)
        j = rng.randrange(0, k - 1)
        g = rng.randint(1, 2)
        docs[j]["indices"] = {"start": docs[j]["indices"]["start"], "stop": docs[j]["indices"]["stop"] + g}
        docs[j]["seq_nums"] = {"start": docs[j]["seq_nums"]["start"], "stop": docs[j]["seq_nums"]["stop"] + g}
        for d in docs[k:]:
            d["indices"] = {"start": d["indices"]["start"] + g, "stop": d["indices"]["stop"] + g}
            d["seq_nums"] = {"start": d["seq_nums"]["start"] + g, "stop": d["seq_nums"]["stop"] + g}
    elif defect == "overlap":
        k = rng.randrange(1, n)
        docs[k]["indices"] = {"start": docs[k]["indices"]["start"] - 1, "stop": docs[k]["indices"]["stop"]}
        docs[k]["seq_nums"] = {"start": docs[k]["seq_nums"]["start"] - 1, "stop": docs[k]["seq_nums"]["stop"]}
    elif defect == "duplicate":
        k = rng.randrange(n)
        docs.append(dict(docs[k], uid="udup"))
    elif defect == "descriptor":
        docs[rng.randrange(n)]["descriptor"] = "d2"
    elif defect == "resource":
        docs[rng.randrange(n)]["stream_resource"] = "r2"
    order = rng.choice(["sorted", "reversed", "shuffled"])
    if order == "reversed":
        docs.reverse()
    elif order == "shuffled":
        rng.shuffle(docs)
    return docs, defect, order


def _model_accept(docs):
    if len({d["descriptor"] for d in docs}) > 1 or len({d["stream_resource"] for d in docs}) > 1:
        return False
    iv = sorted((d["indices"]["start"], d["indices"]["stop"]) for d in docs)
    return all(a[1] == b[0] for a, b in zip(iv, iv[1:]))


def _cons_case(rng, i):
    shape = rng.choice([[], [1], [5], [3, 4], [2, 3, 4], [6], [10, 2]])
    cls = rng.choice(["base", "csv", "hdf5"])
    mimetype = {"base": "application/octet-stream", "csv": "text/csv;header=absent", "hdf5": "application/x-hdf5"}[cls]
    params = {}
    if cls == "hdf5":
        params["dataset"] = "/entry/data"
    jm = rng.choice([None, "stack", "concat"])
    if jm:
        params["join_method"] = jm
    jc = rng.choice([None, True, False])
    if jc is not None:
        params["join_chunks"] = jc
    mult = rng.choice([None, None, 1, 3, 5])
    if mult:
        params["multiplier"] = mult
    eff_ndim = len(shape) + 1
    cn = rng.choice([0, 1, 1, 2, min(3, eff_ndim)])
    cn = min(cn, eff_ndim)
    if cn:
        params["chunk_shape"] = tuple(rng.randint(1, 7) for _ in range(cn))
    # datum sequence
    seq = []
    idx = rng.choice([0, 0, 2])
    s = idx + 1
    for _ in range(rng.randint(0, 5)):
        w = rng.randint(1, 4)
        if rng.random() < 0.15:
            idx += rng.randint(1, 2)  # skipped rows (indices jump, seq_nums continue)
        seq.append({"uid": f"sd{len(seq)}", "stream_resource": "sr", "descriptor": "d",
                    "indices": {"start": idx, "stop": idx + w}, "seq_nums": {"start": s, "stop": s + w}})
        idx += w
        s += w
    return cls, mimetype, shape, params, seq


def run_case(case):
    out = []
    if case["kind"] == "concat":
        from bluesky.callbacks.tiled_writer import concatenate_stream_datums

        for i in range(case["start"], case["start"] + case["count"]):
            rng = rng_for(case["seed"], "C36a", i)
            docs, defect, order = _concat_case(rng, i)
            sub = {"kind": "concat", "start": i, "count": 1, "seed": case["seed"]}
            expect = _model_accept(docs)
            key = f"concat|n={len(docs)}|{defect}|{order}"
            counters = {"concat_accept_expected": int(expect), "concat_reject_expected": int(not expect)}
            try:
                import copy

                res = concatenate_stream_datums(*copy.deepcopy(docs))
                got = True
            except ValueError:
                got, res = False, None
            except Exception as e:  # noqa: BLE001
                out.append(R("violated", key, True, sig=f"C36:concat:raises:{type(e).__name__}", detail=repr(e),
                             witness={"docs": docs}, counters=counters, case=sub))
                continue
            if got != expect:
                sig = f"C36:concat:{'accepted-non-contiguous' if got else 'rejected-contiguous'}:{defect}:{order}"
                out.append(R("violated", key, True, sig=sig, detail=f"docs={docs}", witness={"docs": docs, "result": res},
                             counters=counters, case=sub))
                continue
            if got:
                exp_i = {"start": min(d["indices"]["start"] for d in docs), "stop": max(d["indices"]["stop"] for d in docs)}
                exp_s = {"start": min(d["seq_nums"]["start"] for d in docs), "stop": max(d["seq_nums"]["stop"] for d in docs)}
                if dict(res["indices"]) != exp_i or dict(res["seq_nums"]) != exp_s or res["descriptor"] != "d1" \
                        or res["stream_resource"] != "r1":
                    out.append(R("violated", key, True, sig=f"C36:concat:wrong-combined-range:{order}",
                                 detail=f"got {res} expected indices {exp_i} seq {exp_s}", witness={"docs": docs, "result": res},
                                 counters=counters, case=sub))
                    continue
            out.append(R("held", key, len(docs) >= 2, counters=counters,
                         sample={"docs": [(d["indices"]["start"], d["indices"]["stop"]) for d in docs], "defect": defect,
                                 "accepted": got} if len(docs) >= 3 else None))
        return out

    from bluesky.consolidators import consolidator_factory

    for i in range(case["start"], case["start"] + case["count"]):
        rng = rng_for(case["seed"], "C36b", i)
        cls, mimetype, shape, params, seq = _cons_case(rng, i)
        sub = {"kind": "cons", "start": i, "count": 1, "seed": case["seed"]}
        sres = {"uid": "sr", "data_key": "img", "mimetype": mimetype, "uri": "file://localhost/tmp/x.dat",
                "parameters": dict(params), "run_start": "rs"}
        desc = {"uid": "d", "data_keys": {"img": {"shape": list(shape), "dtype": "array" if shape else "number",
                                                   "source": "x", "external": "STREAM:", "dtype_numpy": "<f8"}}}
        mcls = "none" if not params.get("multiplier") else ("1" if params["multiplier"] == 1 else ">1")
        key = (f"cons|{cls}|jm={params.get('join_method')}|jc={params.get('join_chunks')}|nd={len(shape)}|"
               f"cnd={len(params.get('chunk_shape', ()))}|mult={mcls}")
        counters = {}
        try:
            cons = consolidator_factory(sres, desc)
        except Exception as e:  # noqa: BLE001
            out.append(R("skip", key, False, detail=f"constructor rejects configuration: {type(e).__name__}"))
            continue
        model = {}
        problem = None
        steps = [None] + seq
        for sd in steps:
            try:
                if sd is not None:
                    cons.consume_stream_datum(dict(sd))
                    for k in range(sd["indices"]["stop"] - sd["indices"]["start"]):
                        model[sd["seq_nums"]["start"] + k] = sd["indices"]["start"] + k
                shp = tuple(cons.shape)
                try:
                    ch = cons.chunks
                except ValueError as e:
                    if "should be less than or equal to the shape of data" in str(e):
                        problem = "skip"
                        break
                    raise
            except Exception as e:  # noqa: BLE001
                problem = (f"raises:{type(e).__name__}:{cls}:jm={cons.join_method}:jc={cons.join_chunks}:"
                           f"datum_ndim={len(cons.datum_shape)}",
                           f"{e!r} params={params} shape={shape} after={sd}")
                break
            counters["chunk_checks"] = counters.get("chunk_checks", 0) + 1
            if len(ch) != len(shp) or any(sum(c) != s for c, s in zip(ch, shp)) or any(x < 0 for c in ch for x in c):
                problem = (f"chunks-do-not-sum-to-shape:{cls}:jm={cons.join_method}:jc={cons.join_chunks}",
                           f"shape={shp} chunks={ch} params={params} datum_shape={cons.datum_shape} after={sd}")
                break
            if sd is not None:
                counters["seqmap_checks"] = counters.get("seqmap_checks", 0) + 1
                if dict(cons._seqnums_to_indices_map) != model:
                    problem = ("seqnum-map-wrong", f"map={dict(cons._seqnums_to_indices_map)} expected={model}")
                    break
        if problem == "skip":
            out.append(R("skip", key, False, detail="chunk_shape longer than data shape (documented ValueError)",
                         counters=counters))
        elif problem:
            out.append(R("violated", key, True, sig="C36:cons:" + problem[0], detail=problem[1],
                         witness={"class": cls, "shape": shape, "params": jsonable(params), "datums": seq}, counters=counters,
                         case=sub))
        else:
            out.append(R("held", key, len(seq) >= 1, counters=counters,
                         sample={"class": cls, "datum_shape": shape, "params": jsonable(params), "n_datums": len(seq),
                                 "final_shape": list(cons.shape), "final_chunks": jsonable(cons.chunks)} if len(seq) >= 3 else None))
    return out
