"""C37 — file-name templates expand exactly like printf.

Monitor: printf oracle (CPython's ``%`` operator = C semantics for ``d``) against the file names the real
TIFF/JPEG consolidators derive (both ``get_datum_uri`` and the assets produced by ``consume_stream_datum``).
"""

from __future__ import annotations

import itertools

from vf.common import chunked, rng_for
from vf.worker import R

PROPERTY = "C37"
LEVEL = "exploration"
RULE = ("case = (template, frame index); templates = every subset of the flags {-,+,space,0,#} (canonical order, plus "
        "seeded permutations/repetitions) x width in {absent,1..12} x precision in {absent} U {p: width<=p<=12}, "
        "embedded in a file name; indices {0,1,7,10,99,12345}; exhaustive over that grammar; distinct = template; "
        "non-trivial = template has a flag, width or precision")
ASSUMPTIONS = ["CPython %d formatting implements C printf semantics for the d conversion (the oracle); precision 0 is excluded because CPython prints 0 where C prints nothing",
               "frame indices are non-negative"]
REQUIRED_COUNTERS = {"names_compared": 1000, "with_precision": 100, "with_minus_and_zero": 10, "via_consume": 100}
EXHAUSTIVE = {"quick": "flags subsets x width<=12 x precision in {absent, width..12}", "thorough": "same + 2000 permuted-flag templates"}
MANIFEST = {
    "technique": "printf reference oracle vs real MultipartRelatedConsolidator file names, exhaustive template grammar",
    "category": "exploration",
    "text": "All templates of the bounded grammar are pushed through real TIFF/JPEG consolidators; every derived file "
            "name is compared with Python %-formatting (C printf semantics).",
    "note": "Trusts CPython's % operator as the printf oracle; widths/precisions <= 12.",
    "design_ref": "6 (C37)",
}

INDICES = [0, 1, 7, 10, 99, 12345]


def gen_cases(tier, seed):
    specs = []
    flagsets = []
    for r in range(6):
        for combo in itertools.combinations("-+ 0#", r):
            flagsets.append("".join(combo))
    for fl in flagsets:
        for width in [None] + list(range(1, 13)):
            precs = [None] + [p for p in range(max(width or 0, 1), 13)]
            for p in precs:
                specs.append((fl, width, p))
    rng = rng_for(seed, "C37")
    for _ in range(200 if tier == "quick" else 2000):
        fl = "".join(rng.choice("-+ 0#") for _ in range(rng.randint(1, 4)))
        width = rng.choice([None, 1, 3, 5, 8, 12])
        p = rng.choice([None] + [q for q in range(max(width or 0, 1), 13)])
        specs.append((fl, width, p))
    cases = []
    for i, ch in enumerate(chunked(specs, 150)):
        cases.append({"specs": ch, "mimetype": ["multipart/related;type=image/tiff", "multipart/related;type=image/jpeg"][i % 2],
                      "prefix_style": i % 3})
    return cases


def _mk(template, mimetype, filename=""):
    from bluesky.consolidators import consolidator_factory

    sres = {"uid": "sr1", "data_key": "img", "mimetype": mimetype, "uri": "file://localhost/data/",
            "parameters": {"template": template, "chunk_shape": (1, 4, 4), "filename": filename, "join_method": "stack"},
            "run_start": "rs"}
    desc = {"uid": "d1", "data_keys": {"img": {"shape": [4, 4], "dtype": "array", "source": "x", "external": "STREAM:",
                                                "dtype_numpy": "<u2"}}}
    return consolidator_factory(sres, desc)


def run_case(case):
    out = []
    ext = ".tif" if "tiff" in case["mimetype"] else ".jpg"
    for fl, width, prec in case["specs"]:
        spec = "%" + fl + (str(width) if width is not None else "") + (f".{prec}" if prec is not None else "") + "d"
        if case["prefix_style"] == 0:
            template, filename, ctemplate = f"img_{spec}{ext}", "", f"img_{spec}{ext}"
        elif case["prefix_style"] == 1:
            template, filename, ctemplate = f"%s%s_{spec}{ext}", "scan7", f"scan7_{spec}{ext}"
        else:
            template, filename, ctemplate = f"{spec}{ext}", "", f"{spec}{ext}"
        nontrivial = bool(fl or width is not None or prec is not None)
        key = spec
        counters = {"with_precision": int(prec is not None), "with_minus_and_zero": int("-" in fl and "0" in fl)}
        bad = None
        names = []
        try:
            cons = _mk(template, case["mimetype"], filename)
            for idx in INDICES:
                got = cons.get_datum_uri(idx)
                exp = "file://localhost/data/" + (ctemplate % idx)
                counters["names_compared"] = counters.get("names_compared", 0) + 1
                names.append(got)
                if got != exp:
                    bad = (idx, got, exp)
                    break
            if not bad:
                cons.consume_stream_datum({"uid": "sd1", "stream_resource": "sr1", "descriptor": "d1",
                                           "indices": {"start": 3, "stop": 6}, "seq_nums": {"start": 4, "stop": 7}})
                got_assets = [a.data_uri for a in cons.assets]
                exp_assets = ["file://localhost/data/" + (ctemplate % i) for i in (3, 4, 5)]
                counters["via_consume"] = 3
                if got_assets != exp_assets:
                    bad = ("consume[3:6]", got_assets, exp_assets)
        except Exception as e:  # noqa: BLE001
            bad = ("raises", f"{type(e).__name__}: {e}", ctemplate % 7)
        if bad:
            # mechanism class: which syntactic features the template has
            feat = []
            if prec is not None and width is not None:
                feat.append("width+precision")
            elif prec is not None:
                feat.append("precision-only")
            if "-" in fl:
                feat.append("minus")
            if "-" in fl and "0" in fl:
                feat.append("minus+zero")
            if ("+" in fl or " " in fl) and prec is not None:
                feat.append("sign+precision")
            kind = "raises" if bad[0] == "raises" else "wrong-name"
            out.append(R("violated", key, nontrivial, sig=f"C37:{kind}:{'/'.join(feat) or 'plain'}",
                         detail=f"template {template!r} index {bad[0]}: got {bad[1]!r} expected {bad[2]!r}",
                         witness={"template": template, "index": bad[0], "got": bad[1], "expected": bad[2]},
                         counters=counters,
                         case={"specs": [[fl, width, prec]], "mimetype": case["mimetype"], "prefix_style": case["prefix_style"]}))
        else:
            out.append(R("held", key, nontrivial, counters=counters,
                         sample={"template": template, "names": names[:3]} if prec is not None and fl else None))
    return out
