"""C46 — TiledWriter stores exactly the run it was given."""

from __future__ import annotations

import os
import shutil
import tempfile
import warnings

from vf.common import jsonable, rng_for
from vf.worker import R

PROPERTY = "C46"
LEVEL = "exploration"
RULE = ("case = one generated run written by the real TiledWriter into an in-process Tiled server (tiled.catalog.in_memory + "
        "duckdb + Context.from_app): 1-3 streams with scalar / string / small-array data keys, 0-9 events per stream "
        "delivered as events or event_pages in a seeded interleaving, streams re-described in mid-run (second descriptor, same name), optionally one external HDF5 data key (file written "
        "with h5py; stream_datums of width 1-3 frames), start metadata incl. nested values and integers beyond 2^53, "
        "batch_size in {0,1,2,3,7,10000}; after the RunStop: the run's container metadata 'start' and 'stop' equal the "
        "documents (modulo truncate_json_overflow / JSON round trip), each stream's internal table has one row per event in "
        "seq_num order with the event's values, and the external array's length equals the sum of the received "
        "stream_datum index widths; distinct = (stream layout, batch size class, external y/n, paging)")
ASSUMPTIONS = ["in-process Tiled 0.2.18 is the store under test's counterpart and is trusted (it returns list-valued columns as "
               "their numpy string form, which is accepted)", "floats compared exactly, arrays element-wise"]
REQUIRED_COUNTERS = {"runs_written": 40, "rows_checked": 150, "external_arrays_checked": 10, "batch_boundary_runs": 15,
                     "redescribed_streams": 8}
SHARD_TIMEOUT = {"quick": 1500, "thorough": 7200}
MANIFEST = {
    "technique": "end-to-end read-back oracle: generated runs written by the real TiledWriter to an in-process Tiled server "
                 "and read back through the Tiled client, compared with the documents sent",
    "category": "exploration",
    "text": "Generated multi-stream runs (events and pages, internal and external data) are written with every batch-size "
            "class and read back from the in-process Tiled catalogue; metadata, table rows in seq_num order and external "
            "array lengths must match what was sent.",
    "note": "Sampled runs (in-process server start-up ~8 s per worker limits the quick tier to ~50 runs).",
    "design_ref": "7 (C46)",
}
_ctx = {}


def _client():
    if "client" not in _ctx:
        warnings.simplefilter("ignore")
        import tiled.client as tc
        import tiled.server.app as tsa
        from tiled import catalog as tiled_catalog

        tmp = tempfile.mkdtemp(prefix="c46")
        cat = tiled_catalog.in_memory(writable_storage={"filesystem": tmp, "sql": f"duckdb:///{tmp}/test.db"},
                                      readable_storage=[tmp])
        app = tsa.build_app(cat)
        ctx = tc.Context.from_app(app)
        ctx.__enter__()
        _ctx.update(client=tc.from_context(ctx), ctx=ctx, tmp=tmp)
    return _ctx["client"], _ctx["tmp"]


def worker_fini():
    if "ctx" in _ctx:
        try:
            _ctx["ctx"].__exit__(None, None, None)
        except Exception:  # noqa: BLE001
            pass
        shutil.rmtree(_ctx["tmp"], ignore_errors=True)
    return {}


def gen_cases(tier, seed):
    n = 64 if tier == "quick" else 1500
    per = 4 if tier == "quick" else 30
    return [{"start": s, "count": per, "seed": seed} for s in range(0, n, per)]


BATCHES = [0, 1, 2, 3, 7, 10000]


def run_case(case):
    import h5py
    import numpy as np
    from event_model import compose_run, pack_event_page

    from bluesky.callbacks.tiled_writer import TiledWriter
    from bluesky.utils import truncate_json_overflow

    client, tmp = _client()
    out = []
    for i in range(case["start"], case["start"] + case["count"]):
        rng = rng_for(case["seed"], "C46", i)
        sub = {"start": i, "count": 1, "seed": case["seed"]}
        batch = BATCHES[i % len(BATCHES)]
        tw = TiledWriter(client, batch_size=batch)
        md = {"purpose": "c46", "nested": {"a": [1, 2, {"b": "x"}]}, "big": 2**60 if rng.random() < 0.5 else 7, "idx": i}
        run = compose_run(metadata=md)
        names = ["primary", "baseline", "aux"][:rng.randint(1, 3)]
        paging = rng.choice(["events", "pages", "mixed"])
        external = rng.random() < 0.5
        sent = [("start", run.start_doc)]
        descs, counts, rows = {}, {}, {}
        for nm in names:
            dks = {f"{nm}_x": {"dtype": "number", "shape": [], "source": "s"}}
            if rng.random() < 0.7:
                dks[f"{nm}_s"] = {"dtype": "string", "shape": [], "source": "s"}
            if rng.random() < 0.5:
                dks[f"{nm}_arr"] = {"dtype": "array", "shape": [3], "source": "s"}
            if external and nm == "primary":
                dks["img"] = {"dtype": "array", "shape": [1, 2, 2], "source": "f", "external": "STREAM:", "dtype_numpy": "<f8"}
            descs[nm] = (run.compose_descriptor(name=nm, data_keys=dks, object_keys={"det": list(dks)}), dks)
            sent.append(("descriptor", descs[nm][0].descriptor_doc))
            counts[nm] = rng.randint(0, 9)
            rows[nm] = []
        sres = None
        widths = []
        if external:
            n_frames = counts["primary"]
            h5 = os.path.join(tmp, f"run{i}_{case['seed']}.h5")
            with h5py.File(h5, "w") as f:
                f.create_dataset("entry/data", data=np.arange(max(n_frames, 1) * 4, dtype="<f8").reshape(max(n_frames, 1), 2, 2)[:n_frames])
            sres = run.compose_stream_resource(mimetype="application/x-hdf5", uri="file://localhost" + h5, data_key="img",
                                               parameters={"dataset": "/entry/data", "chunk_shape": [1, 2, 2]})
            sent.append(("stream_resource", sres.stream_resource_doc))
        order = [nm for nm in names for _ in range(counts[nm])]
        rng.shuffle(order)
        # a stream may be re-described in mid-run (same name and keys, new uid - what a 'configure' does): its rows continue
        redescribe_at = {nm: rng.randint(1, counts[nm] - 1) for nm in names
                         if counts[nm] >= 2 and rng.random() < 0.4 and not (external and nm == "primary")}
        redescribed = 0
        pending_pages = {nm: [] for nm in names}
        emitted_frames = 0
        pending_frames = 0
        for nm in order:
            b, dks = descs[nm]
            if redescribe_at.get(nm) == len(rows[nm]):
                if pending_pages[nm]:
                    sent.append(("event_page", pack_event_page(*pending_pages[nm])))
                    pending_pages[nm] = []
                b = run.compose_descriptor(name=nm, data_keys=dks, object_keys={"det": list(dks)},
                                           configuration={"det": {"data": {"gain": 2}, "timestamps": {"gain": 1.0},
                                                                  "data_keys": {"gain": {"dtype": "number", "shape": [], "source": "c"}}}})
                descs[nm] = (b, dks)
                sent.append(("descriptor", b.descriptor_doc))
                redescribed += 1
            data, ts = {}, {}
            seq = len(rows[nm]) + 1
            for key in dks:
                if key == "img":
                    continue
                if key.endswith("_x"):
                    data[key] = seq + 0.25
                elif key.endswith("_s"):
                    data[key] = f"{nm}-{seq}"
                else:
                    data[key] = [seq, seq * 2, seq * 3]
                ts[key] = 1.0 + seq
            ev = b.compose_event(data=data, timestamps=ts)
            rows[nm].append(ev)
            use_page = paging == "pages" or (paging == "mixed" and rng.random() < 0.5)
            if use_page:
                pending_pages[nm].append(ev)
                if len(pending_pages[nm]) >= rng.randint(1, 3):
                    sent.append(("event_page", pack_event_page(*pending_pages[nm])))
                    pending_pages[nm] = []
            else:
                if pending_pages[nm]:
                    sent.append(("event_page", pack_event_page(*pending_pages[nm])))
                    pending_pages[nm] = []
                sent.append(("event", ev))
            if external and nm == "primary":
                pending_frames += 1
                if pending_frames >= rng.randint(1, 3):
                    sd = sres.compose_stream_datum(indices={"start": emitted_frames, "stop": emitted_frames + pending_frames})
                    sd["descriptor"] = b.descriptor_doc["uid"]
                    sd["seq_nums"] = {"start": emitted_frames + 1, "stop": emitted_frames + pending_frames + 1}
                    sent.append(("stream_datum", sd))
                    widths.append(pending_frames)
                    emitted_frames += pending_frames
                    pending_frames = 0
        for nm in names:
            if pending_pages[nm]:
                sent.append(("event_page", pack_event_page(*pending_pages[nm])))
        if external and pending_frames:
            sd = sres.compose_stream_datum(indices={"start": emitted_frames, "stop": emitted_frames + pending_frames})
            sd["descriptor"] = descs["primary"][0].descriptor_doc["uid"]
            sd["seq_nums"] = {"start": emitted_frames + 1, "stop": emitted_frames + pending_frames + 1}
            sent.append(("stream_datum", sd))
            widths.append(pending_frames)
        stop = run.compose_stop()
        sent.append(("stop", stop))
        problems = []
        counters = {"runs_written": 1, "rows_checked": 0, "external_arrays_checked": 0, "redescribed_streams": redescribed,
                    "batch_boundary_runs": int(batch in (2, 3, 7) and any(c > batch for c in counts.values()))}
        try:
            import copy

            for name, d in sent:
                tw(name, copy.deepcopy(d))
        except Exception as e:  # noqa: BLE001
            problems.append((f"writer-raised:{type(e).__name__}", repr(e)[:200]))
        if not problems:
            try:
                node = client[run.start_doc["uid"]]
                import json

                canon = lambda x: json.loads(json.dumps(x, default=lambda o: o.tolist() if hasattr(o, "tolist") else str(o)))  # noqa: E731
                mstart = canon(dict(node.metadata["start"]))
                exp_start = canon(truncate_json_overflow(dict(run.start_doc)))
                if mstart != exp_start:
                    diff = {k: (mstart.get(k), exp_start.get(k)) for k in set(mstart) | set(exp_start) if mstart.get(k) != exp_start.get(k)}
                    problems.append(("start-metadata-differs", str(jsonable(diff))[:200]))
                mstop = canon(dict(node.metadata.get("stop") or {}))
                if mstop != canon(dict(stop)):
                    problems.append(("stop-metadata-differs", f"{mstop} vs {canon(dict(stop))}"))
                for nm in names:
                    evs = rows[nm]
                    if not evs:
                        continue
                    df = node[nm].base["internal"].read()
                    counters["rows_checked"] += len(evs)
                    if len(df) != len(evs):
                        problems.append((f"row-count:{'fewer' if len(df) < len(evs) else 'more'}:batch={'small' if batch < 100 else 'large'}",
                                         f"stream {nm}: {len(df)} rows for {len(evs)} events (batch_size {batch})"))
                        continue
                    seqs = [int(v) for v in df["seq_num"]]
                    if seqs != list(range(1, len(evs) + 1)):
                        problems.append(("rows-not-in-seq_num-order", f"stream {nm}: {seqs}"))
                        continue
                    for r, ev in enumerate(evs):
                        for key, v in ev["data"].items():
                            got = df[key].iloc[r]
                            if isinstance(v, list):
                                # Tiled 0.2.18's duckdb-backed tables hand list columns back as their numpy string form
                                ok = (isinstance(got, str) and got == str(np.asarray(v))) or (not isinstance(got, str) and list(got) == list(v))
                            else:
                                ok = got == v
                            if not ok:
                                problems.append(("row-value-differs", f"stream {nm} seq {r + 1} key {key}: {got!r} vs {v!r}"))
                                break
                        else:
                            continue
                        break
                if external and widths:
                    arr = node["primary"].base["img"].read()
                    counters["external_arrays_checked"] = 1
                    if arr.shape[0] != sum(widths):
                        problems.append(("external-array-length", f"{arr.shape} vs stream_datum widths {widths} (sum {sum(widths)})"))
            except Exception as e:  # noqa: BLE001
                problems.append((f"read-back-failed:{type(e).__name__}", repr(e)[:200]))
        key = f"streams={len(names)}|batch={batch}|ext={external}|{paging}|counts={sorted(counts.values())}"
        if problems:
            seen = set()
            for kd, detail in problems:
                sig = f"C46:{kd}"
                if sig in seen:
                    continue
                seen.add(sig)
                out.append(R("violated", key + "|" + kd, True, sig=sig, detail=f"{key}: {detail}",
                             witness={"streams": counts, "batch": batch, "external": external, "paging": paging,
                                      "sent": [n for n, _ in sent]}, counters=counters, case=sub))
                counters = {}
        else:
            out.append(R("held", key, sum(counts.values()) > 0, counters=counters,
                         sample={"streams": counts, "batch": batch, "external": external, "paging": paging,
                                 "sent": [n for n, _ in sent][:30]} if external and len(names) >= 2 else None))
    return out
