"""C13 — each yield receives the response to its own message."""

from __future__ import annotations

from bluesky.utils import RunEngineInterrupted

from vf import sweepcheck
from vf.oracles.common import landing_info, outcome_class, quiet_logging, spec_json
from vf.sweep import execute, reference_coords
from vf.worker import R

PROPERTY = "C13"
LEVEL = "exploration"
RULE = ("case = one execution of a traced plan (every yield records the value or exception it receives): corpus plans and "
        "'responses' (one yield of almost every command), bare and under the preprocessors SupplementalData(baseline, "
        "monitors), finalize_wrapper, relative_set/reset_positions, set_run_key, msg/plan mutators and a message filter that removes messages (the plan gets None there), uninterrupted and "
        "with pause/resume or suspension (with pre/post plans) landing after EVERY loop handle, plus a second pause landing inside the replay of the command the first one interrupted; the received value must be "
        "the response of the latest execution of that very message: the new run's uid for open_run, the device's own "
        "status object (identity) for set/trigger/kickoff/complete, the device's reading/location/list (equality) for read/locate/stage/unstage, True for wait, "
        "the flag for rewindable, a working token for subscribe, the payload for collect, None otherwise; RE()/resume() "
        "return the uids of the runs opened so far in order, and with call_returns_result=True the plan's return value, "
        "exit status and interrupted flag; distinct = (plan, wrapper, command kind, interrupted y/n, outcome)")
ASSUMPTIONS = ["a response is 'to its own message' when it is what the device/engine produced during some execution of that "
               "message object before the value was delivered (a rewind may execute a message more than once)"]
REQUIRED_COUNTERS = {"executions": 500, "responses_checked": 10000, "identity_checks": 3000, "interrupted_executions": 300,
                     "call_returns_checked": 300, "result_objects_checked": 50, "removed_messages_checked": 200, "second_interruption_of_replay": 100}
MANIFEST = {
    "technique": "self-instrumented plans + response oracle (identity against the device ledger / document log) over an "
                 "exhaustive pause/suspend coordinate sweep and a preprocessor matrix",
    "category": "exploration",
    "text": "Traced plans record what every yield receives; each value is compared, by identity where the device handed "
            "out an object, with what the latest execution of that message produced, across preprocessors, suspender "
            "helper plans and rewinds; RE() return values are checked against the emitted RunStart uids.",
    "note": "Corpus plans x wrappers x all coordinates.",
    "design_ref": "3 (C13)",
}
PLANS_Q = ["responses", "custom", "scan", "nested"]
PLANS_T = PLANS_Q + ["mixed", "fly", "count", "grid", "two_runs", "neverclose"]
WRAPPERS = ["traced", "traced+sd", "traced+finalize", "traced+mutators", "traced+result", "traced+filter"]
SHARD_TIMEOUT = {"quick": 900, "thorough": 3600}
NONE_CMDS = {"null", "checkpoint", "sleep", "create", "save", "drop", "monitor", "unmonitor", "clear_checkpoint",
             "unsubscribe", "install_suspender", "remove_suspender"}
IDENT_CMDS = {"set", "trigger", "kickoff", "complete", "stage", "unstage", "read", "locate"}


def worker_init(tier, seed):
    quiet_logging()


def gen_cases(tier, seed):
    cases = []
    plans = PLANS_Q if tier == "quick" else PLANS_T
    for p in plans:
        for w in WRAPPERS:
            cases.append({"plan": p, "wrapper": w, "kind": None, "seed": seed})
            for k in ("pause", "suspend-pp"):
                for s in range(2):
                    cases.append({"plan": p, "wrapper": w, "kind": k, "slice": [s, 2], "seed": seed})
    return cases


def build_spec(plan, wrapper):
    spec = {"plan": plan, "wrap_name": "traced"}
    if wrapper == "traced+sd":
        spec["outer"] = "sd"
    elif wrapper == "traced+finalize":
        spec["outer"] = "finalize"
    elif wrapper == "traced+mutators":
        spec["outer"] = "mutators"
    elif wrapper == "traced+filter":
        spec["outer"] = "filter"
        del spec["wrap_name"]      # here the tracer sits INSIDE the filter (it must see what the filter sends back)
    elif wrapper == "traced+result":
        spec["re_kwargs"] = {"call_returns_result": True}
    return spec


def _outer(plan, h, d, which):
    import bluesky.preprocessors as bpp
    from bluesky.utils import Msg

    if which == "sd":
        sd = bpp.SupplementalData(baseline=[d["det2"]], monitors=[])
        return sd(plan)
    if which == "finalize":
        def fin():
            yield Msg("null", None, "fin")
        return bpp.finalize_wrapper(plan, fin)
    if which == "filter":
        # a message filter that REMOVES messages: the plan gets None at the yield of a removed message
        from vf.corpus import traced

        return bpp.msg_mutator(traced(plan, h), lambda m: None if (m.command == "null" and m.args[:1] == ("droppable",)) else m)
    if which == "mutators":
        return bpp.msg_mutator(bpp.plan_mutator(plan, lambda m: (None, None)), lambda m: m)
    return plan


def run_exec(spec):
    s = dict(spec)
    outer = s.pop("outer", None)
    if outer:
        s["wrap"] = lambda plan, h, d: _outer(plan, h, d, outer)
    return execute(s)


def expected_table(log):
    """message object id -> list of (log index of execution, response descriptor)."""
    table = {}
    n = len(log)
    i = 0
    while i < n:
        e = log[i]
        if e[0] == "msg":
            m = e[1]
            j = i + 1
            window = []
            while j < n and log[j][0] != "msg":
                window.append((j, log[j]))
                j += 1
            cmd = m.command
            resp = ("skip",)
            if cmd in IDENT_CMDS:
                name = getattr(m.obj, "name", None)
                r = next((x[3] for _, x in window if x[0] == "devret" and x[1] == name and x[2] == cmd), None)
                resp = ("is", r) if r is not None else ("unknown",)
            elif cmd == "open_run":
                u = next((x[2]["uid"] for _, x in window if x[0] == "doc" and x[1] == "start"), None)
                resp = ("eq", u) if u else ("unknown",)
            elif cmd == "close_run":
                u = next((x[2]["run_start"] for _, x in window if x[0] == "doc" and x[1] == "stop"), None)
                resp = ("eq", u) if u else ("unknown",)
            elif cmd == "wait":
                resp = ("eq", True)
            elif cmd in NONE_CMDS:
                resp = ("eq", None)
            elif cmd == "rewindable":
                resp = ("bool",)
            elif cmd == "subscribe":
                resp = ("token",)
            elif cmd == "RE_class":
                resp = ("reclass",)
            elif cmd == "collect":
                resp = ("payload",)
            elif cmd == "configure":
                resp = ("pair",)
            table.setdefault(id(m), []).append((i, resp))
        i += 1
    return table


def judge(ex, wrapper, ref_nm):
    li = landing_info(ex, ref_nm)
    spec = ex.spec
    key0 = f"{spec['plan']}|{wrapper}|" + ("+".join(f"{x['kind']}@{x['command']}" for x in li) or "uninterrupted")
    if ex.timeout or ex.stuck:
        return [R("inconclusive", key0, detail="engine did not come back (judged by C07)")]
    log = ex.log
    from bluesky.run_engine import RunEngine, RunEngineResult

    table = expected_table(log)
    problems = []
    counters = {"executions": 1, "responses_checked": 0, "identity_checks": 0, "interrupted_executions": int(bool(li)),
                "call_returns_checked": 0, "result_objects_checked": 0, "removed_messages_checked": 0}
    yields = {}
    interrupted_cmds = set()
    # which message was in flight when an interruption took effect
    last_msg = None
    inflight = set()
    inflight_norewind = set()   # ... while the plan had switched rewinding off: the engine has nothing to replay
    rw = True
    for i, e in enumerate(log):
        if e[0] == "msg":
            last_msg = e[1]
            if e[1].command == "rewindable" and e[1].args and e[1].args[0] is not None:
                rw = bool(e[1].args[0])
        elif e[0] == "state" and e[1] in ("pausing", "suspending") and last_msg is not None:
            inflight.add(id(last_msg))
            if not rw:
                inflight_norewind.add(id(last_msg))
    for i, e in enumerate(log):
        if e[0] == "plan" and e[1] == "yield":
            yields[e[3]] = e[4]
        elif e[0] == "plan" and e[1] == "recv":
            m = yields.get(e[3])
            if m is None:
                continue
            r = e[4]
            execs = [x for x in table.get(id(m), []) if x[0] < i]
            if not execs:
                if m.command == "null" and m.args[:1] == ("droppable",) and wrapper == "traced+filter":
                    counters["removed_messages_checked"] += 1
                    if r is not None:
                        problems.append(("removed-message-got-a-response", f"yield {e[3]}: received {str(r)[:60]!r}, the message never reached the engine"))
                continue
            kind = execs[-1][1]
            counters["responses_checked"] += 1
            cmd = m.command
            bad = None
            if kind[0] == "is":
                counters["identity_checks"] += 1
                # a message re-executed by a rewind has several executions; the response of any of them is "its own"
                # status objects by identity (the plan waits on them); readings / locations / staged lists by equality
                same = (lambda a, b: a is b) if cmd in ("set", "trigger", "kickoff", "complete") else (lambda a, b: a == b)
                if not any(k[0] == "is" and same(r, k[1]) for _, k in execs):
                    bad = f"received {type(r).__name__} {str(r)[:60]!r}, the device returned {str(kind[1])[:60]!r}"
            elif kind[0] == "eq":
                if not any(k[0] == "eq" and r == k[1] and (k[1] is not True or r is True) for _, k in execs):
                    bad = f"received {r!r}, expected {kind[1]!r}"
            elif kind[0] == "bool":
                if not isinstance(r, bool):
                    bad = f"received {r!r}, expected the rewindable flag"
            elif kind[0] == "token":
                if not isinstance(r, int):
                    bad = f"received {r!r}, expected a subscription token"
            elif kind[0] == "reclass":
                if r is not RunEngine:
                    bad = f"received {r!r}"
            elif kind[0] == "payload":
                if not (isinstance(r, list) and all(isinstance(x, dict) and "data" in x for x in r)):
                    bad = f"received {str(r)[:80]!r}, expected the collected payload"
            elif kind[0] == "pair":
                if not (isinstance(r, tuple) and len(r) == 2):
                    bad = f"received {r!r}, expected (old, new)"
            if bad:
                stale = id(m) in inflight and r is None
                tag = f"stale-None-after-interrupted-command:{cmd}" if stale else f"wrong-response:{cmd}"
                if stale and id(m) in inflight_norewind:
                    tag = f"interrupted-command-dropped-while-not-rewindable:{cmd}"
                problems.append((tag, f"yield {e[3]} {cmd}({getattr(m.obj, 'name', None)}): {bad}"))
    # return values of the public calls
    uids = []
    plan_ret = next((e[3] for e in log if e[0] == "plan" and e[1] == "return"), "<none>")
    for i, e in enumerate(log):
        if e[0] == "call" and e[1] in ("RE",):
            uids = []
        elif e[0] == "doc" and e[1] == "start":
            uids.append(e[2]["uid"])
        elif e[0] == "ret" and e[1] in ("RE", "resume"):
            counters["call_returns_checked"] += 1
            r = e[2]
            if isinstance(r, RunEngineResult):
                counters["result_objects_checked"] += 1
                if tuple(r.run_start_uids) != tuple(uids):
                    problems.append(("result-uids-wrong", f"{r.run_start_uids} vs started {uids}"))
                if r.interrupted:
                    problems.append(("result-says-interrupted", "normal return with interrupted=True"))
                if r.exit_status != "success":
                    problems.append((f"result-exit_status-{r.exit_status}", "normal return"))
                if plan_ret != "<none>" and r.plan_result != plan_ret and r.plan_result is not ex.h.RE.NO_PLAN_RETURN:
                    problems.append(("result-plan_result-wrong", f"{r.plan_result!r} vs plan returned {plan_ret!r}"))
            elif tuple(r) != tuple(uids):
                problems.append(("returned-uids-wrong", f"{e[1]} returned {r} but runs started in this call: {uids}"))
    key = f"{key0}|{outcome_class(ex)}"
    if problems:
        out, seen = [], set()
        for kd, detail in problems:
            sig = f"C13:{kd}"
            if sig in seen:
                continue
            seen.add(sig)
            sp = dict(spec_json(spec), wrapper=wrapper)
            out.append(R("violated", key + "|" + kd, True, sig=sig, detail=f"{key}: {detail}",
                         witness={"spec": sp, "landing": li, "calls": outcome_class(ex)}, counters=counters,
                         case={"replay_spec": sp, "ref_nm": ref_nm}))
            counters = {}
        return out
    return [R("held", key, True, counters=counters,
              sample={"plan": spec["plan"], "wrapper": wrapper, "inj": [i[:3] for i in spec.get("inj", [])],
                      "responses_checked": counters["responses_checked"], "calls": outcome_class(ex)}
              if li and counters["responses_checked"] > 20 else None)]


def run_case(case):
    if "replay_spec" in case:
        sp = dict(case["replay_spec"])
        w = sp.pop("wrapper")
        return judge(run_exec(sp), w, case["ref_nm"])
    base = build_spec(case["plan"], case["wrapper"])
    ref = run_exec(dict(base, inj=[], decisions=[]))
    nm = len(ref.h.msgs())
    if case["kind"] is None:
        return judge(ref, case["wrapper"], nm)
    # coordinates of this wrapped plan
    from vf.sweep import Exec

    h_ref = run_exec_coords(base)
    out = []
    s, n = case["slice"]
    from vf.checks.C11 import params_for

    for c in h_ref[s::n]:
        params = params_for(case["kind"]) if case["kind"] != "pause" else {}
        ex = run_exec(dict(base, inj=[[c[0], c[1], case["kind"], params]], decisions=["resume", "resume", "resume"]))
        out += judge(ex, case["wrapper"], nm)
        # the same command interrupted a SECOND time, while its replay is executing (before it ever completed)
        if len(out) % 3 == 0:
            msgs = [e[1] for e in ex.log if e[0] == "msg"]
            hit = None
            last = None
            for e in ex.log:
                if e[0] == "msg":
                    last = e[1]
                elif e[0] == "state" and e[1] in ("pausing", "suspending"):
                    hit = last
                    break
            if hit is not None:
                idxs = [k + 1 for k, m in enumerate(msgs) if m is hit]
                if len(idxs) >= 2:
                    ex2 = run_exec(dict(base, inj=[[c[0], c[1], case["kind"], params], [idxs[1], 2, "pause", {}]],
                                        decisions=["resume", "resume", "resume", "resume"]))
                    rs = judge(ex2, case["wrapper"], nm)
                    for r in rs:
                        if r.get("counters"):
                            r["counters"]["second_interruption_of_replay"] = 1
                    out += rs
    return out


def run_exec_coords(base):
    s = dict(base, inj=[], decisions=[])
    outer = s.pop("outer", None)
    if outer:
        s["wrap"] = lambda plan, h, d: _outer(plan, h, d, outer)
    ex = execute(s, keep_coords=True)
    seen, out = set(), []
    for c in ex.coords:
        if c not in seen:
            seen.add(c)
            out.append(c)
    return out
