"""C07 — the RunEngine lifecycle never takes an illegal transition or gets stuck.

Monitor: state_hook/public-call oracle over RE-sweeps. A request of every kind lands after every loop handle of
every corpus plan (including the tail where the plan is finishing); when the engine pauses, every decision is
taken. Thorough tier adds ordered pairs of requests.
"""

from __future__ import annotations

from vf.common import rng_for
from bluesky.utils import RunEngineInterrupted
from vf.oracles.common import landing_info, outcome_class, quiet_logging, requests, spec_json
from vf.sweep import CORPUS, DECISIONS, KINDS, TKINDS, execute, reference_coords
from vf.worker import R

PROPERTY = "C07"
LEVEL = "exploration"
RULE = ("case = one execution of a corpus plan on a fresh engine with a request of kind k in {pause, deferred pause, "
        "abort, stop, halt, suspend(release after 0.3 virtual s)} landing after loop handle (msg index, sub-handle) for "
        "EVERY such coordinate of the uninterrupted run incl. the post-plan tail, followed by decision d in {resume, abort, "
        "stop, halt} whenever the engine pauses (thorough: + ordered pairs of requests at stratified coordinate pairs); "
        "distinct = (plan, command executing at landing, engine state at landing, kind[, second kind], decisions, outcome "
        "class); non-trivial = the request landed while the engine was not idle")
ASSUMPTIONS = ["requests are injected between two loop handles on the loop thread, where a call_soon_threadsafe from a "
               "foreign thread would land; the public methods' own thread hand-off is exercised by the decisions only",
               "stuck = loop quiescent (no ready handle, no timer) for 0.4 s real time while a blocking call is "
               "outstanding; wall-clock watchdog (20 s) => inconclusive",
               "internal task errors that never surface at a public call are diagnostics, not verdicts",
               "the abstract-model half of the quantifier (exhaustive lifecycle model) is model checking and is not built"]
REQUIRED_COUNTERS = {"landed": 500, "transitions_checked": 2000, "tail_landings": 20, "paused_decisions": 100,
                     "probe_ok": 500, "thread_requests": 100}
MANIFEST = {
    "technique": "state_hook transition-table monitor + public-call postcondition + loop-quiescence stuck detector over "
                 "an exhaustive injection-coordinate sweep on a step-counting virtual-time event loop",
    "category": "exploration",
    "text": "Every request kind is landed after every loop handle of every corpus plan and every post-pause decision is "
            "taken; each observed transition is checked against the declared table (read from the code at run time), "
            "each public call must end idle/paused without TransitionError, a probe plan must run afterwards, and a "
            "quiescent loop with an outstanding call is reported as stuck.",
    "note": "Decides only the executions produced (corpus plans x all coordinates x kinds x decisions); SIGINT/panicked "
            "path and the abstract lifecycle model are outside this check.",
    "design_ref": "3 (C07)",
}

PLANS_QUICK = ["scan", "custom", "neverclose", "norun", "nested", "fly", "clearcp", "two_runs", "rw_fail", "count"]
# (not 'cleanup_fails': its cleanup always raises, and abort()/stop()/halt() legitimately re-raise that error)
PLANS_THOROUGH = [p for p in CORPUS if p != "cleanup_fails" and not p.startswith("count_mixed")]
SHARD_TIMEOUT = {"quick": 900, "thorough": 3600}


def gen_cases(tier, seed):
    cases = []
    plans = PLANS_QUICK if tier == "quick" else PLANS_THOROUGH
    nsl = 2 if tier == "quick" else 3
    for p in plans:
        for k in KINDS:
            for s in range(nsl):
                cases.append({"plan": p, "kind": k, "slice": [s, nsl], "seed": seed})
    tplans = ["scan", "custom", "neverclose"] if tier == "quick" else plans
    for p in tplans:
        for k in TKINDS:
            cases.append({"plan": p, "kind": k, "slice": [0, 3 if tier == "quick" else 1], "seed": seed})
        for k1 in ("pause", "t-pause", "suspend"):
            for k2 in ("t-abort", "t-stop", "t-halt", "t-pause"):
                cases.append({"plan": p, "kind": k1, "kind2": k2, "pairs": 10 if tier == "quick" else 30, "seed": seed,
                              "near": True})
    if tier == "thorough":
        for p in plans:
            for k1 in KINDS:
                for k2 in KINDS:
                    # a second abort/stop/halt goes through the public method on a helper thread: only that path
                    # also resumes a run task that has meanwhile parked itself in 'paused'
                    k2 = {"abort": "t-abort", "stop": "t-stop", "halt": "t-halt"}.get(k2, k2)
                    cases.append({"plan": p, "kind": k1, "kind2": k2, "pairs": 14, "seed": seed})
    return cases


def worker_init(tier, seed):
    quiet_logging()


def _table():
    from bluesky.run_engine import RunEngineStateMachine

    return {k: set(v) for k, v in RunEngineStateMachine.Meta.transitions.items()}


def judge(ex, ref_nmsgs, base_key):
    """-> list of result dicts for one execution."""
    from bluesky._vendor.super_state_machine.errors import TransitionError

    table = _table()
    li = landing_info(ex, ref_nmsgs)
    landed_busy = [x for x in li if x["state"] != "idle"]
    counters = {"landed": int(bool(li)), "transitions_checked": 0, "tail_landings": sum(1 for x in li if x["region"] == "tail"),
                "paused_decisions": sum(1 for n, r in ex.calls if n in DECISIONS), "probe_ok": 0,
                "thread_requests": sum(1 for e in ex.log if e[0] == "call" and e[1].startswith("t-"))}
    lk = "+".join(f"{x['kind']}@{x['command']}/{x['state']}/{x['region']}" for x in li) or "none"
    key = f"{base_key}|{lk}|{outcome_class(ex)}"
    state_key = "|".join(f"{x['state']}:{x['kind']}" for x in li) + "|" + outcome_class(ex)
    if ex.timeout:
        return [R("inconclusive", key, detail="wall-clock watchdog fired", counters=counters)]
    where = "+".join(f"{x['kind']}:{x['region']}" for x in li) or "none"
    problems = []
    for e in ex.log:
        if e[0] == "state":
            counters["transitions_checked"] += 1
            new, old = e[1], e[2]
            if new != old and new not in table.get(old, set()):
                problems.append((f"illegal-transition:{old}->{new}", f"{old}->{new}"))
    if ex.stuck:
        problems.append((f"stuck-in:{ex.final_state}", f"loop quiescent with a blocking call outstanding; state {ex.final_state}"))
    # state after every public call
    threaded = any(e[0] == "call" and e[1].startswith("t-") for e in ex.log)
    st = None
    for e in ex.log:
        if e[0] == "state":
            st = e[1]
        elif e[0] in ("ret", "exc") and not ex.stuck:
            if e[1].startswith("t-"):
                # a request issued from a second thread while the engine runs returns at once (the blocking call is the
                # caller's RE(...)); only the documented rejection or acceptance is expected of it, judged below
                # (what such a call raises is not part of the property: besides the documented TransitionError it may
                #  re-raise the plan's own failure, or be cancelled when it races with the end of the call; counted only)
                if e[0] == "exc" and not isinstance(e[2], TransitionError):
                    counters["thread_request_other_exceptions"] = counters.get("thread_request_other_exceptions", 0) + 1
                continue
            if st not in (None, "idle", "paused") and not threaded:
                # (with a second thread acting, the state read when the caller's return is logged may already be the
                # one produced by that thread's accepted request: judged through the final state and the probe instead)
                problems.append((f"state-after-call:{st}", f"after {e[1]} returned/raised the state is {st}"))
            if e[0] == "exc":
                exc = e[2]
                if isinstance(exc, TransitionError) or (isinstance(exc, RuntimeError) and "The RunEngine is in a" in str(exc)):
                    problems.append((f"public-call-raised:{type(exc).__name__}", f"{e[1]} raised {exc!r}"))
    if ex.helper_hung:
        problems.append(("thread-request-never-returned", "a public request issued from a second thread did not return"))
    if not ex.stuck and ex.final_state not in ("idle",):
        problems.append((f"final-state:{ex.final_state}", f"case ended in state {ex.final_state}"))
    if ex.probe is not None:
        if ex.probe[0] == "ret":
            counters["probe_ok"] = 1
        elif isinstance(ex.probe[1], RunEngineInterrupted):
            # a request that was still in flight when the judged call returned interrupted the probe instead: the
            # engine is usable (the probe ended idle/paused), which is all this property asks
            counters["probe_interrupted_by_late_request"] = 1
        else:
            problems.append((f"probe-failed:{type(ex.probe[1]).__name__}", f"next call raised {ex.probe[1]!r}"))
    out = []
    if problems:
        seen = set()
        for kind, detail in problems:
            sig = f"C07:{kind}:{where}"
            if sig in seen:
                continue
            seen.add(sig)
            out.append(R("violated", key + "|" + kind, bool(landed_busy), sig=sig,
                         detail=f"{base_key} {lk}: {detail}; calls={outcome_class(ex)}",
                         witness={"spec": spec_json(ex.spec), "landing": li, "calls": outcome_class(ex),
                                  "states": [(e[1], e[2]) for e in ex.log if e[0] == "state"][-12:],
                                  "requests": [(a, b, str(c)[:80]) for a, b, c in requests(ex)]},
                         counters=counters, state=state_key, case={"replay_spec": spec_json(ex.spec), "ref_nmsgs": ref_nmsgs,
                                                                 "base_key": base_key}))
            counters = {}
    else:
        out.append(R("held" if li else "skip", key, bool(landed_busy), counters=counters, state=state_key,
                     sample={"plan": ex.spec["plan"], "inj": ex.spec.get("inj"), "decisions": ex.spec.get("decisions"),
                             "landing": li, "calls": outcome_class(ex),
                             "transitions": [f"{e[2]}->{e[1]}" for e in ex.log if e[0] == "state"]}
                     if li and li[0]["region"] == "tail" else None))
    return out


def run_case(case):
    if "replay_spec" in case:
        ex = execute(case["replay_spec"])
        return judge(ex, case["ref_nmsgs"], case["base_key"])
    out = []
    plan, kind = case["plan"], case["kind"]
    ref, coords = reference_coords({"plan": plan})
    nm = len(ref.h.msgs())
    if "kind2" in case:
        rng = rng_for(case["seed"], "C07pair", plan, kind, case["kind2"])
        for _ in range(case["pairs"]):
            i = rng.randrange(len(coords))
            c1 = coords[i]
            # the second request lands a few handles later (same or later message)
            if case.get("near"):
                # second request within the few handles in which the first one is still taking effect
                c2 = (c1[0], c1[1] + rng.randint(1, 6)) if rng.random() < 0.7 else coords[min(len(coords) - 1, i + rng.randint(1, 4))]
            else:
                c2 = (c1[0], c1[1] + rng.randint(1, 3)) if rng.random() < 0.5 else coords[min(len(coords) - 1, i + rng.randint(1, 12))]
            for dec in (["resume", "resume"], ["abort"]):
                ex = execute({"plan": plan, "inj": [[c1[0], c1[1], kind], [c2[0], c2[1], case["kind2"]]], "decisions": dec})
                out += judge(ex, nm, f"{plan}|pair")
        return out
    s, n = case["slice"]
    for c in coords[s::n]:
        base = {"plan": plan, "inj": [[c[0], c[1], kind]]}
        ex = execute(dict(base, decisions=["resume", "resume", "resume"]))
        out += judge(ex, nm, plan)
        if any(nm_ in DECISIONS for nm_, _ in ex.calls):
            # the engine paused: take the other decisions too
            for dec in ("abort", "stop", "halt"):
                ex2 = execute(dict(base, decisions=[dec]))
                out += judge(ex2, nm, plan)
    return out
