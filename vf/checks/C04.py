"""C04 — resuming replays exactly the work done since the last checkpoint."""

from __future__ import annotations

from vf import sweepcheck
from vf.oracles.common import landing_info, lost_uncacheable, outcome_class, spec_json
from vf.oracles.replay import run_automaton
from vf.worker import R

PROPERTY = "C04"
LEVEL = "exploration"
RULE = ("case = one execution of a corpus plan (incl. 'mixed': checkpoints, a non-rewindable region, stage/unstage, "
        "subscribe/unsubscribe and monitor mid-run, work after close_run; 'clearcp'; nested run keys) with a pause or a "
        "suspension (with and without pre/post plans) landing after EVERY loop handle and resumed/released (thorough: two "
        "interruptions incl. one during the replay); the message log is run through a replay automaton built from the "
        "documented rules: after resume/release exactly the remembered message OBJECTS are re-executed in order, then a "
        "new message follows; distinct = (plan, kind, commands in the expected frame, nesting depth); non-trivial = the "
        "expected replay frame was non-empty")
ASSUMPTIONS = ["non-replayable commands and implicit checkpoints as listed in vf/oracles/replay.py (from the docs)",
               "after a clear_checkpoint the rest of the call is not judged (documented as 'un-resuming')"]
REQUIRED_COUNTERS = {"executions": 500, "resumes_with_nonempty_frame": 200, "suspensions_with_nonempty_frame": 100,
                     "replayed_messages": 1000}
MANIFEST = {
    "technique": "online replay automaton (reference model of the checkpoint/rewind rules) over the msg_hook log, message "
                 "identity compared, on an exhaustive pause/suspend coordinate sweep",
    "category": "exploration",
    "text": "Pauses and suspensions land after every loop handle of plans mixing checkpoints, implicit checkpoints, "
            "non-rewindable regions and run boundaries; an independent automaton predicts, by object identity, the exact "
            "sequence of re-executed messages and flags any deviation.",
    "note": "Corpus plans x all coordinates; automaton rules taken from the documentation.",
    "design_ref": "3 (C04)",
}
PLANS_Q = ["mixed", "scan", "custom", "two_runs", "nested", "norun", "keys_sparse"]
PLANS_T = PLANS_Q + ["keys_sparse2", "grid", "count", "clearcp", "fly", "rel_scan", "custom_mon", "neverclose"]
SHARD_TIMEOUT = {"quick": 900, "thorough": 3600}
worker_init = sweepcheck.worker_init


def _pre():
    from bluesky.utils import Msg

    return [Msg("null", None, "pre1"), Msg("null", None, "pre2")]


def _post():
    from bluesky.utils import Msg

    yield Msg("null", None, "post1")


def gen_cases(tier, seed):
    return sweepcheck.gen_cases(tier, seed, PLANS_Q, PLANS_T, ["pause", "suspend", "suspend-pp"],
                                pairs=[("pause", "pause"), ("pause", "suspend"), ("suspend", "pause"), ("suspend", "suspend")])


def judge(ex, ref, case):
    li = landing_info(ex, len(ref.h.msgs()))
    key0 = f"{ex.spec['plan']}|" + ("+".join(f"{x['kind']}@{x['command']}" for x in li) or "none")
    if ex.timeout or ex.stuck:
        return [R("inconclusive", key0, detail="engine did not come back (judged by C07)")]
    if not li:
        return [R("skip", key0, False)]
    problems, c = run_automaton(ex.log)
    counters = {"executions": 1, "resumes_with_nonempty_frame": c["resumes_with_nonempty_frame"],
                "suspensions_with_nonempty_frame": c["suspensions_with_nonempty_frame"], "replayed_messages": c["replayed"]}
    nonempty = c["resumes_with_nonempty_frame"] + c["suspensions_with_nonempty_frame"]
    key = f"{key0}|replayed={c['replayed']}|depth={c['max_depth']}|{outcome_class(ex)}"
    if problems:
        kd, detail = problems[0]
        lost = lost_uncacheable(ex)
        if lost:
            return [R("violated", key, True, sig=f"C04:interrupted-uncacheable-command-lost:{lost}",
                      detail=f"{key}: the '{lost}' command was cancelled in mid-flight by the interruption and is neither "
                             f"completed nor replayed; {detail}",
                      witness={"spec": spec_json(ex.spec), "landing": li}, counters=counters,
                      case={"replay_spec": spec_json(ex.spec)})]
        return [R("violated", key, True, sig=f"C04:{kd}:{'+'.join(x['kind'] for x in li)}:at={li[0]['command']}",
                  detail=f"{key}: {detail}",
                  witness={"spec": spec_json(ex.spec), "landing": li,
                           "messages": [(m.command, getattr(m.obj, "name", None)) for m in ex.h.msgs()][-60:]},
                  counters=counters, case={"replay_spec": spec_json(ex.spec)})]
    return [R("held", key, nonempty > 0, counters=counters,
              sample={"plan": ex.spec["plan"], "inj": [i[:3] for i in ex.spec.get("inj", [])], "replayed": c["replayed"],
                      "depth": c["max_depth"], "calls": outcome_class(ex)} if c["replayed"] >= 3 else None)]


def run_case(case):
    params = {"suspend-pp": {}}
    c = dict(case)
    return sweepcheck.run_case(c, judge, decisions=(), first_decisions=("resume", "resume", "resume", "resume"),
                               inj_params={"suspend-pp": {"pre_plan": _pre, "post_plan": _post, "justification": "beam dump"}})
