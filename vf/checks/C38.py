"""C38 — truncate_json_overflow makes any numeric payload JSON-safe without changing safe values.

Monitor: structural post-condition walker over (input, output) pairs of the real function on seeded nested
structures; the same walker is installed as an icontract post-condition on the real function object so that
indirect callers (TiledWriter) are observed too when they run in the same process.
"""

from __future__ import annotations

import math

from vf.common import chunked, jsonable, rng_for
from vf.worker import R

PROPERTY = "C38"
LEVEL = "exploration"
RULE = ("case = one call on a seeded nested structure (dict/list/tuple/ndarray up to depth 4) whose leaves are drawn "
        "from Python int/bool/float, every numpy integer and float width, 0-d arrays and strings at magnitude classes "
        "{small, +-(2^53-1), +-2^53, +-2^60, type extreme, 1e300, inf, nan, fractional}; distinct = (leaf type, magnitude "
        "class, container kind) triples seen; non-trivial = structure contains an out-of-range or non-finite leaf")
ASSUMPTIONS = ["'same shape' = same keys / lengths / nesting (tuple or ndarray may come back as list)",
               "'unchanged' = numerically equal (==), NaN stays NaN",
               "an infinite input only has to become finite (the clamp value 1.7976e308 is integer-valued but is not judged "
               "against the 2^53 bound: the statement's float clause covers it)"]
REQUIRED_COUNTERS = {"leaves_checked": 2000, "numpy_out_of_range_leaves": 20, "nonfinite_leaves": 20, "zero_d_arrays": 5,
                     "contract_evaluations": 100}
MANIFEST = {
    "technique": "icontract post-condition + structural walker oracle on real truncate_json_overflow over seeded nested inputs",
    "category": "exploration",
    "text": "Seeded nested payloads covering every numeric leaf type x magnitude class are passed to the real function; "
            "a walker checks shape preservation, the +-(2^53-1) bound on every integral value, finiteness of floats and "
            "equality of in-range values.",
    "note": "Random structures, not exhaustive; leaf classes are enumerated so each (type, magnitude) is hit every run.",
    "design_ref": "6 (C38)",
}

LIM = 2**53 - 1


def _leaf_pool():
    import numpy as np

    pool = []

    def add(tname, mag, v):
        pool.append((tname, mag, v))

    for mag, v in [("small", 5), ("neg-small", -17), ("zero", 0), ("lim", LIM), ("-lim", -LIM), ("lim+1", LIM + 1),
                   ("-lim-1", -LIM - 1), ("2^60", 2**60), ("-2^60", -2**60), ("1e30", 10**30), ("-1e30", -10**30)]:
        add("int", mag, v)
    add("bool", "small", True)
    add("bool", "zero", False)
    for mag, v in [("frac", 0.5), ("neg-frac", -1234.25), ("small", 3.0), ("lim", float(2**53)), ("2^53+2", float(2**53 + 2)),
                   ("1e300", 1e300), ("-1e300", -1e300), ("inf", math.inf), ("-inf", -math.inf), ("nan", math.nan),
                   ("bigfrac", 1.5), ("max", 1.7976931348623157e308), ("1e17", 1e17)]:
        add("float", mag, v)
    for t in [np.int8, np.int16, np.int32, np.int64, np.uint8, np.uint16, np.uint32, np.uint64]:
        info = np.iinfo(t)
        add(t.__name__, "small", t(7))
        add(t.__name__, "max", t(info.max))
        add(t.__name__, "min", t(info.min))
    add("int64", "2^60", np.int64(2**60))
    add("int64", "-2^60", np.int64(-2**60))
    add("uint64", "2^60", np.uint64(2**60))
    add("int64", "lim", np.int64(LIM))
    add("int64", "lim+1", np.int64(LIM + 1))
    for t in [np.float16, np.float32, np.float64]:
        add(t.__name__, "frac", t(0.5))
        add(t.__name__, "small", t(12.0))
        add(t.__name__, "inf", t(np.inf))
        add(t.__name__, "-inf", t(-np.inf))
        add(t.__name__, "nan", t(np.nan))
        add(t.__name__, "max", np.finfo(t).max)
    add("float32", "1e30", np.float32(1e30))
    add("float64", "1e300", np.float64(1e300))
    add("str", "str", "hello")
    add("str", "digits", "123456789012345678901234567890")
    add("none", "none", None)
    return pool


def _classify(v):
    """-> ('nan'|'inf'|'int-in'|'int-out'|'frac'|'other', python value)"""
    import numpy as np

    if isinstance(v, (bool, np.bool_)):
        return "int-in", int(v)
    if isinstance(v, (int, np.integer)):
        iv = int(v)
        return ("int-in" if -LIM <= iv <= LIM else "int-out"), iv
    if isinstance(v, (float, np.floating)):
        fv = float(v)
        if math.isnan(fv):
            return "nan", fv
        if math.isinf(fv):
            return "inf", fv
        if fv == math.floor(fv):
            return ("int-in" if -LIM <= fv <= LIM else "int-out"), fv
        return "frac", fv
    return "other", v


class Walk:
    def __init__(self):
        self.problems = []
        self.leaves = 0
        self.counters = {"numpy_out_of_range_leaves": 0, "nonfinite_leaves": 0, "zero_d_arrays": 0}
        self.classes = set()

    def check(self, a, b, path="$", container="top"):
        import collections.abc as cabc

        import numpy as np

        if isinstance(a, cabc.Mapping):
            if not isinstance(b, cabc.Mapping) or list(a.keys()) != list(b.keys()) and set(a.keys()) != set(b.keys()):
                self.problems.append(("shape-changed", "mapping", path, repr(b)[:80]))
                return
            for k in a:
                self.check(a[k], b[k], f"{path}.{k}", "dict")
            return
        if isinstance(a, str) or a is None:
            if not (a == b if a is not None else b is None):
                self.problems.append(("non-numeric-changed", type(a).__name__, path, repr(b)[:80]))
            return
        if isinstance(a, np.ndarray) and a.ndim == 0:
            self.counters["zero_d_arrays"] += 1
            self._leaf(a.item(), b, path, "0-d-array:" + a.dtype.name, container)
            return
        if isinstance(a, (list, tuple, np.ndarray)):
            try:
                nb = len(b)
            except TypeError:
                self.problems.append(("shape-changed", "sequence", path, repr(b)[:80]))
                return
            if isinstance(b, (str, cabc.Mapping)) or nb != len(a):
                self.problems.append(("shape-changed", "sequence", path, repr(b)[:80]))
                return
            kind = "ndarray" if isinstance(a, np.ndarray) else type(a).__name__
            for i in range(len(a)):
                self.check(a[i], b[i], f"{path}[{i}]", kind)
            return
        self._leaf(a, b, path, type(a).__name__, container)

    def _leaf(self, a, b, path, tname, container):
        import numpy as np

        self.leaves += 1
        ca, va = _classify(a)
        if isinstance(b, np.ndarray) and b.ndim == 0:
            b = b.item()
        cb, vb = _classify(b)
        self.classes.add(f"{tname}|{ca}|{container}")
        if ca == "int-out" and tname not in ("int", "float"):
            self.counters["numpy_out_of_range_leaves"] += 1
        if ca in ("inf", "nan"):
            self.counters["nonfinite_leaves"] += 1
        if cb == "other":
            self.problems.append(("number-became-non-number", tname, path, repr(b)[:60]))
        elif cb == "int-out" and ca == "inf":
            pass  # an infinity clamped to a huge finite float: "finite" is all the property asks of it
        elif cb == "int-out":
            self.problems.append(("integral-out-of-range", tname + ":" + ca, path, repr(b)[:60]))
        elif cb == "inf":
            self.problems.append(("non-finite-float", tname + ":" + ca, path, repr(b)[:60]))
        elif ca in ("int-in", "frac") and not (vb == va):
            self.problems.append(("in-range-value-changed", tname, path, f"{a!r} -> {b!r}"))
        elif ca == "nan" and cb != "nan":
            # NaN is allowed to stay; turning it into a number is a change of an allowed value
            self.problems.append(("in-range-value-changed", tname + ":nan", path, f"{a!r} -> {b!r}"))


def _build(rng, pool, depth):
    import numpy as np

    r = rng.random()
    if depth >= 4 or r < 0.35:
        t, m, v = rng.choice(pool)
        return v
    if r < 0.55:
        return {f"k{i}": _build(rng, pool, depth + 1) for i in range(rng.randint(0, 4))}
    if r < 0.72:
        return [_build(rng, pool, depth + 1) for _ in range(rng.randint(0, 4))]
    if r < 0.82:
        return tuple(_build(rng, pool, depth + 1) for _ in range(rng.randint(0, 3)))
    if r < 0.95:
        dt = rng.choice([np.int64, np.uint64, np.int32, np.float32, np.float64, np.uint8, np.int16])
        shape = rng.choice([(3,), (2, 2), (0,), (1, 3), (4,)])
        n = int(np.prod(shape))
        if np.issubdtype(dt, np.integer):
            info = np.iinfo(dt)
            vals = [rng.choice([0, 1, info.max, info.min, min(info.max, 2**60), 7]) for _ in range(n)]
        else:
            vals = [rng.choice([0.5, np.inf, -np.inf, np.nan, 3.0, float(np.finfo(dt).max), 1e30]) for _ in range(n)]
        return np.array(vals, dtype=dt).reshape(shape)
    dt = rng.choice([np.int64, np.float64, np.uint64, np.float32])
    v = rng.choice([5, 2**60, 0]) if np.issubdtype(dt, np.integer) else rng.choice([0.5, np.inf, 1e30])
    return np.array(v, dtype=dt)


def gen_cases(tier, seed):
    n = 600 if tier == "quick" else 12000
    return [{"start": s, "count": 50, "seed": seed} for s in range(0, n, 50)] + [{"pool": True, "seed": seed}]


_contract = {"n": 0, "bad": []}
_wrapped = None


def _install_contract():
    """icontract post-condition on the real function object (records, never raises)."""
    global _wrapped
    if _wrapped is not None:
        return _wrapped
    import bluesky.utils as bu

    try:
        import icontract
    except ImportError:
        _wrapped = bu.truncate_json_overflow
        return _wrapped
    import copy

    def output_is_json_safe(data, result):
        w = Walk()
        try:
            w.check(data, result)
        except Exception:  # noqa: BLE001
            return True
        _contract["n"] += 1
        if w.problems:
            _contract["bad"].append(w.problems[0])
        return True

    orig = bu.truncate_json_overflow
    # the function is recursive through its module global: contract only the outermost call
    wrapped = icontract.ensure(output_is_json_safe, error=AssertionError)(lambda data: orig(data))
    _wrapped = wrapped
    # re-bind in every module that imported the original by name
    import sys

    for m in list(sys.modules.values()):
        try:
            if m is not bu and getattr(m, "truncate_json_overflow", None) is orig:
                m.truncate_json_overflow = wrapped
        except Exception:  # noqa: BLE001
            pass
    return wrapped


def run_case(case):
    f = _install_contract()
    pool = _leaf_pool()
    items = []
    if case.get("pool"):
        # every (type, magnitude) leaf alone, in a list, in a dict, in a tuple
        for t, m, v in pool:
            items += [(f"leaf:{t}:{m}", v), (f"list:{t}:{m}", [v, 1]), (f"dict:{t}:{m}", {"a": v, "b": {"c": [v]}}),
                      (f"tuple:{t}:{m}", (v,))]
    else:
        for i in range(case["start"], case["start"] + case["count"]):
            rng = rng_for(case["seed"], "C38", i)
            items.append((f"rand:{i}", _build(rng, pool, 0)))
    out = []
    for label, data in items:
        import copy

        snap = copy.deepcopy(data)
        n0 = _contract["n"]
        w = Walk()
        try:
            res = f(data)
        except Exception as e:  # noqa: BLE001
            w2 = Walk()
            try:
                w2.check(snap, snap)
            except Exception:  # noqa: BLE001
                pass
            cls = "0-d-array" if w2.counters["zero_d_arrays"] else "other"
            out.append(R("violated", label, True, sig=f"C38:raises:{type(e).__name__}:{cls}", detail=f"{label}: {e!r}",
                         witness={"input": jsonable(snap)}, counters={"zero_d_arrays": w2.counters["zero_d_arrays"]},
                         case={"literal": label, "seed": case["seed"], **({"pool": True} if case.get("pool") else
                                                                         {"start": int(label.split(':')[1]), "count": 1})}))
            continue
        w.check(snap, res)
        counters = dict(w.counters)
        counters["leaves_checked"] = w.leaves
        counters["contract_evaluations"] = _contract["n"] - n0
        nontrivial = any("|int-out|" in c or "|inf|" in c or "|nan|" in c for c in w.classes)
        if w.problems:
            seen = set()
            for kind, tname, path, what in w.problems:
                sig = f"C38:{kind}:{tname}"
                if sig in seen:
                    continue
                seen.add(sig)
                out.append(R("violated", label + "|" + sig, True, sig=sig, detail=f"{label} at {path}: {what}",
                             witness={"input": jsonable(snap), "output": jsonable(res), "path": path}, counters=counters,
                             case={"seed": case["seed"], **({"pool": True} if case.get("pool") else
                                                            {"start": int(label.split(':')[1]), "count": 1})}))
                counters = {}
        else:
            for c in sorted(w.classes):
                pass
            out.append(R("held", "|".join(sorted(w.classes))[:300], nontrivial, counters=counters,
                         sample={"input": jsonable(snap), "output": jsonable(res)} if nontrivial and w.leaves > 3 else None))
    return out
