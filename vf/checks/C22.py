"""C22 — cleanup wrappers run their cleanup exactly once on every exit path.

Monitor: (1) differential of finalize_wrapper / finalize_decorator / contingency_wrapper against a literal Python
try/except/else/finally written with the same sub-plans; (2) direct count oracle: the cleanup plan is started
exactly once when the wrapped plan ended by return or exception and never when the wrapper was closed while the
wrapped plan was suspended.
"""

from __future__ import annotations

from vf.common import chunked, rng_for
from vf.gendriver import (Program, all_scripts, deviation_scripts, drive, enumerate_programs, label, make_gen_func,
                          max_yields, random_program)
from vf.worker import R

PROPERTY = "C22"
LEVEL = "exploration"
RULE = ("case = (wrapped program AST, auxiliary program ASTs for cleanup/except/else, wrapper variant, script); wrapped "
        "programs: all ASTs <=4 nodes (quick) / <=5 (thorough) + random to 10 nodes; auxiliary programs from a fixed set of 9 "
        "(yielding, raising, swallowing, yielding-in-finally); variants: finalize_wrapper with callable / generator "
        "instance / Msg list, finalize_wrapper(pause_for_debug=True), finalize_decorator (first and second invocation of one decorated function), contingency_wrapper over all presence combinations of except/else/"
        "final x auto_raise; scripts: all of length <=2 + single deviations over the whole run; one result per (program, "
        "variant); distinct = (program, variant); non-trivial = wrapped program can yield")
ASSUMPTIONS = ["reference = the literal try/except/else/finally in this module (cleanup skipped only when GeneratorExit "
               "arrives while the wrapped plan is suspended)", "pause_for_debug=True adds one 'pause' message before the "
               "exception travels on; whatever is sent or thrown at that message, the cleanup still runs"]
REQUIRED_COUNTERS = {"drives": 20000, "cleanup_once_checked": 3000, "cleanup_skipped_on_close_checked": 1000,
                     "throws_inside_cleanup": 200}
MANIFEST = {
    "technique": "differential against literal Python try/except/else/finally + cleanup-count oracle, exhaustive small "
                 "programs x consumer scripts",
    "category": "exploration",
    "text": "Every small program wrapped by each cleanup wrapper variant is driven by send/throw/close scripts and "
            "compared event-by-event with the equivalent literal Python construct; cleanup executions are counted.",
    "note": "Exhaustive only up to the size bound; close() during except/else/final sub-plans is compared with Python "
            "semantics only (the statement does not single it out).",
    "design_ref": "5 (C22)",
}

AUX = [["y"], ["raise"], ["seq", ["y"], ["y"]], ["seq", ["y"], ["raise"]], ["te", ["y"], "swallow", ["y"]],
       ["tf", ["y"], ["y"]], ["ret"], ["te", ["seq", ["y"], ["y"]], "new", ["y"]], ["seq", ["y"], ["ret"]]]


def gen_cases(tier, seed):
    top = 4 if tier == "quick" else 5
    progs = []
    for s in range(1, top + 1):
        progs += enumerate_programs(s)
    rng = rng_for(seed, "C22")
    for _ in range(150 if tier == "quick" else 2000):
        progs.append(random_program(rng, rng.randint(5, 10)))
    cases = []
    for i, ch in enumerate(chunked(progs, 12 if tier == "quick" else 40)):
        cases.append({"progs": ch, "aux_rot": i, "seed": seed})
    return cases


# ---- literal references -------------------------------------------------------------------


def ref_finalize(plan, final_factory):
    closed = False
    try:
        ret = yield from plan
    except GeneratorExit:
        closed = True
        raise
    finally:
        if not closed:
            yield from final_factory()
    return ret


def ref_finalize_pfd(plan, final_factory):
    """finalize_wrapper(..., pause_for_debug=True): a 'pause' message before the exception travels on."""
    from bluesky.plan_stubs import pause

    closed = False
    try:
        ret = yield from plan
    except GeneratorExit:
        closed = True
        raise
    except BaseException:
        yield from pause()
        raise
    finally:
        if not closed:
            yield from final_factory()
    return ret


def ref_contingency(plan, except_plan, else_plan, final_plan, auto_raise):
    closed = False
    try:
        try:
            ret = yield from plan
        except GeneratorExit:
            closed = True
            raise
        except Exception as e:
            if except_plan:
                ret = yield from except_plan(e)
                if auto_raise:
                    raise
                return ret
            raise
        else:
            if else_plan:
                yield from else_plan()
    finally:
        if not closed and final_plan:
            yield from final_plan()
    return ret


VARIANTS = (["fw-callable", "fw-instance", "fw-list", "fdec", "fw-pfd", "fdec-2nd"] +
            [f"cw-{e}{l}{f}-{'ar' if ar else 'nr'}" for e in "E_" for l in "L_" for f in "F_" for ar in (True, False)])


def build(variant, body_ast, aux, log, real):
    """Return (generator, ctxs, registry) for one side (real wrapper or literal reference)."""
    from bluesky import preprocessors as bp
    from bluesky.utils import Msg

    ctxs, reg = [], []
    body = Program(body_ast, "B", log=log)
    ctxs.append(body.ctx)
    c_ast, e_ast, l_ast = aux
    cf = make_gen_func(c_ast, "C", reg, log=log, ctxs=ctxs)
    ef = make_gen_func(e_ast, "E", reg, log=log, ctxs=ctxs)
    lf = make_gen_func(l_ast, "L", reg, log=log, ctxs=ctxs)
    if variant == "fw-callable":
        g = bp.finalize_wrapper(body.gen, cf) if real else ref_finalize(body.gen, cf)
    elif variant == "fw-instance":
        inst = cf()
        g = bp.finalize_wrapper(body.gen, inst) if real else ref_finalize(body.gen, lambda: inst)
    elif variant == "fw-list":
        msgs = [Msg("null", None, "c0", pid="list"), Msg("null", None, "c1", pid="list")]

        def lst():
            log.append(("C", "instantiated", None))
            for m in msgs:
                log.append(("C", "yield", m.args[0]))
                yield m

        if real:
            class Once:
                def __iter__(self):
                    return lst()
            g = bp.finalize_wrapper(body.gen, Once())
        else:
            g = ref_finalize(body.gen, lst)
    elif variant == "fw-pfd":
        g = bp.finalize_wrapper(body.gen, cf, pause_for_debug=True) if real else ref_finalize_pfd(body.gen, cf)
    elif variant == "fdec-2nd":
        # the SAME decorated function is invoked twice (first with an empty body, run to its end); judged: the second run
        calls = []

        def body_func2():
            calls.append(1)
            return iter(()) if len(calls) == 1 else body.gen

        if real:
            factory = bp.finalize_decorator(cf)(body_func2)
        else:
            def factory():
                inst = cf()
                plan = body_func2()
                closed = False
                try:
                    ret = yield from plan
                except GeneratorExit:
                    closed = True
                    raise
                finally:
                    if not closed:
                        yield from inst
                return ret

        try:
            for _m in factory():
                pass
            log.append(("W", "warm-up", "returned"))
        except Exception as e:  # noqa: BLE001  (a raising cleanup program ends the first invocation)
            log.append(("W", "warm-up", type(e).__name__))
        g = factory()
    elif variant == "fdec":
        body_reg = []

        def body_func():
            return body.gen

        if real:
            g = bp.finalize_decorator(cf)(body_func)()
        else:
            def fdec_ref():
                # flat on purpose: an extra generator level would be collected (and close its children) as soon as a
                # RuntimeError from a yield-during-close escapes it, which the real wrapper's frame layout does not do
                inst = cf()
                closed = False
                try:
                    ret = yield from body.gen
                except GeneratorExit:
                    closed = True
                    raise
                finally:
                    if not closed:
                        yield from inst
                return ret

            g = fdec_ref()
    else:
        _, flags, ar = variant.split("-")
        kw = {"except_plan": ef if flags[0] == "E" else None, "else_plan": lf if flags[1] == "L" else None,
              "final_plan": cf if flags[2] == "F" else None, "auto_raise": ar == "ar"}
        if real:
            g = bp.contingency_wrapper(body.gen, **kw)
        else:
            g = ref_contingency(body.gen, kw["except_plan"], kw["else_plan"], kw["final_plan"], kw["auto_raise"])
    return g, ctxs, body


def _tag(msg):
    return (msg.command, msg.args, (msg.kwargs.get("pid") or "")[:1])


def scripts_for(n):
    seen, out = set(), []
    for L in range(0, 3):
        for s in all_scripts(L):
            if tuple(s) not in seen:
                seen.add(tuple(s))
                out.append(s)
    for s in deviation_scripts(min(n, 7)):
        if tuple(s) not in seen:
            seen.add(tuple(s))
            out.append(s)
    return out


def _norm(log):
    # when a sub-plan callable is *called* is not part of the property: only what the sub-plans do is compared.
    # Once a program yields after having been closed ("generator ignored GeneratorExit") everything later depends on
    # when the abandoned generators are garbage-collected, so the comparison stops at that yield.
    out, closed = [], set()
    for x in log:
        if x[1] == "instantiated":
            continue
        if x[1] == "closed_at":
            closed.add(x[0])
        elif x[1] == "yield" and x[0] in closed:
            out.append(("...", "yield-after-close"))
            break
        out.append(tuple(x))
    return out


def run_case(case):
    out = []
    for pi, ast0 in enumerate(case["progs"]):
        body_ast = label(ast0)
        k = max_yields(body_ast)
        rot = case["aux_rot"] + pi
        aux0 = (AUX[rot % len(AUX)], AUX[(rot // 2 + 3) % len(AUX)], AUX[(rot // 3 + 5) % len(AUX)])
        aux = tuple(label(a) for a in aux0)
        n = k + sum(max_yields(a) for a in aux) + 2
        scripts = scripts_for(n)
        for variant in VARIANTS:
            counters = {"drives": 0, "cleanup_once_checked": 0, "cleanup_skipped_on_close_checked": 0,
                        "throws_inside_cleanup": 0}
            problem = None
            for script in scripts:
                logs = []
                res = []
                for real in (True, False):
                    log = []
                    g, ctxs, body = build(variant, body_ast, aux, log, real)
                    tr, oc, msgs = drive(g, script, ctxs, _tag)
                    res.append((tr, oc, _norm(log), [tuple(x) for x in log]))
                    counters["drives"] += 1
                    del g
                (tr, oc, lg, full), (tr2, oc2, lg2, _) = res
                if tr != tr2:
                    problem = ("messages-differ", f"{tr} vs {tr2}", script)
                elif oc != oc2:
                    ka = oc[0] if isinstance(oc[0], str) else "close-raised"
                    kb = oc2[0] if isinstance(oc2[0], str) else "close-raised"
                    problem = (f"outcome-differs:{kb}->{ka}", f"real {oc} vs python {oc2}", script)
                elif lg != lg2:
                    d = next(((x, y) for x, y in zip(lg, lg2) if x != y), (lg[len(lg2):], lg2[len(lg):]))
                    problem = ("events-differ", f"real {d[0]} vs python {d[1]}", script)
                else:
                    # direct count oracle on the real side
                    has_cleanup = variant.startswith("f") or variant.split("-")[1][2] == "F"
                    wi = next((i for i, e in enumerate(lg) if e[0] == "W"), None)
                    if wi is not None:   # second invocation: count only what happened after the warm-up run
                        lg = lg[wi + 1:]
                        wf = next((i for i, e in enumerate(full) if e[0] == "W"), -1)
                        full = full[wf + 1:]
                    if has_cleanup:
                        started = sum(1 for e in lg if e[0] == "C" and e[1] in ("yield", "raise", "ret"))
                        c_first = [e for e in lg if e[0] == "C" and e[1] in ("yield", "raise", "ret")]
                        body_done = any(e[0] == "B" and e[1] == "returned" for e in lg) or \
                            any(e[0] == "B" and e[1] in ("thrown_at", "raise") for e in lg) and \
                            not any(e[0] == "B" and e[1] == "closed_at" for e in lg)
                        body_closed = any(e[0] == "B" and e[1] == "closed_at" for e in lg)
                        inst = sum(1 for e in full if e[0] == "C" and e[1] == "instantiated")
                        bl = [e for e in lg if e[0] == "B"]
                        first_close = next((i for i, e in enumerate(bl) if e[1] == "closed_at"), None)
                        misbehaved = first_close is not None and any(e[1] in ("yield", "raise", "ret") for e in bl[first_close:])
                        if body_closed and oc == ("closed",) and not misbehaved:
                            counters["cleanup_skipped_on_close_checked"] += 1
                            if c_first:
                                problem = ("cleanup-ran-on-close", f"log {lg}", script)
                        elif not body_closed and any(e[0] == "B" and e[1] == "returned" for e in lg):
                            counters["cleanup_once_checked"] += 1
                            if variant in ("fw-callable",) or variant.startswith("cw"):
                                if inst != 1:
                                    problem = (f"cleanup-instantiated-{inst}-times", f"log {lg}", script)
                        if any(e[0] == "C" and e[1] == "thrown_at" for e in lg):
                            counters["throws_inside_cleanup"] += 1
                if problem:
                    break
            key = f"{ast0!r}|{variant}"
            wname = {"fw": "finalize_wrapper", "fd": "finalize_decorator", "cw": "contingency_wrapper"}[variant[:2]]
            if problem:
                out.append(R("violated", key, k > 0, sig=f"C22:{wname}:{problem[0]}",
                             detail=f"program {ast0} aux {aux0} variant {variant} script {problem[2]}: {problem[1]}"[:700],
                             witness={"program": ast0, "aux": aux0, "variant": variant, "script": problem[2],
                                      "difference": problem[1][:500]}, counters=counters,
                             case={"progs": [ast0], "aux_rot": rot, "seed": case["seed"]}))
            else:
                out.append(R("held", key, k > 0, counters=counters,
                             sample={"program": ast0, "aux": aux0, "variant": variant, "n_scripts": len(scripts)}
                             if k >= 2 and variant == "cw-ELF-nr" else None))
    return out
