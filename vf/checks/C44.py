"""C44 — peak statistics describe the data they were given.

Monitor: post-condition oracle on the attributes the real PeakStats callback reports after being fed a full
document stream (start/descriptor/events/stop) built from seeded (x, y) arrays.
"""

from __future__ import annotations

import math

from vf.common import chunked, jsonable, rng_for
from vf.worker import R

PROPERTY = "C44"
LEVEL = "exploration"
RULE = ("case = one run of n events (2..60) fed to PeakStats; x strictly monotonic (increasing/decreasing, uniform or "
        "jittered spacing, offsets up to 1e6), y from shape classes {gauss, dip, step, line, const, zero, noise, two-peaks, "
        "spike, zero-sum, tiny, huge, ints}, edge_count in {None,1,2,3} with 2*edge_count<=n; distinct = (x direction, "
        "y class, edge_count, n bucket); non-trivial = y not constant")
ASSUMPTIONS = ["|y| <= 1e100 so max+min cannot overflow (an overflow there would be the generator's doing)",
               "with edge_count the extremes are those of the background-subtracted y, as the class documents",
               "ties: any x attaining the extreme value is accepted", "crossing tolerance: 1e-9*|dx| + 4 ulp"]
REQUIRED_COUNTERS = {"runs": 200, "crossings_checked": 200, "fwhm_checked": 50, "edge_runs": 30, "decreasing_x_runs": 30}
MANIFEST = {
    "technique": "post-condition oracle on real PeakStats attributes over seeded monotonic-x/finite-y document streams",
    "category": "exploration",
    "text": "Seeded (x,y) shape classes in both x directions, with and without edge background subtraction, are fed as "
            "real documents; min/max/com/cen/crossings/fwhm are checked against an independent numpy recomputation.",
    "note": "Sampled inputs; independent recomputation shares numpy with the implementation.",
    "design_ref": "6 (C44)",
}

YCLASSES = ["gauss", "dip", "step", "line", "const", "zero", "noise", "two-peaks", "spike", "zero-sum", "zero-moment", "tiny", "huge", "ints"]


def gen_cases(tier, seed):
    n = 600 if tier == "quick" else 10000
    return [{"start": s, "count": 40, "seed": seed} for s in range(0, n, 40)]


def _make(rng, i):
    import numpy as np

    n = rng.choice([2, 3, 4, 5, 7, 10, 15, 25, 40, 60])
    direction = rng.choice([1, -1])
    x0 = rng.choice([0.0, -5.0, 1e6, 1e-3, 123.456])
    if rng.random() < 0.5:
        steps = np.full(n - 1, rng.choice([1.0, 0.1, 1e-4, 3.7]))
    else:
        steps = np.array([rng.uniform(0.05, 2.0) for _ in range(n - 1)])
    x = x0 + direction * np.concatenate([[0.0], np.cumsum(steps)])
    ycls = YCLASSES[i % len(YCLASSES)]
    t = np.linspace(-1, 1, n)
    if ycls == "gauss":
        y = rng.choice([1.0, 50.0]) * np.exp(-((t - rng.uniform(-0.8, 0.8)) ** 2) / rng.choice([0.01, 0.1, 0.5])) + rng.choice([0, 3.0])
    elif ycls == "dip":
        y = -np.exp(-((t - rng.uniform(-0.5, 0.5)) ** 2) / 0.1) + rng.choice([0.0, -2.0, 1.0])
    elif ycls == "step":
        y = (t > rng.uniform(-0.9, 0.9)).astype(float) * rng.choice([1.0, -1.0, 7.5])
    elif ycls == "line":
        y = rng.uniform(-3, 3) * t + rng.uniform(-1, 1)
    elif ycls == "const":
        y = np.full(n, rng.choice([1.0, -2.5, 1e-9]))
    elif ycls == "zero":
        y = np.zeros(n)
    elif ycls == "noise":
        y = np.array([rng.uniform(-1, 1) for _ in range(n)])
    elif ycls == "two-peaks":
        y = np.exp(-((t + 0.5) ** 2) / 0.02) + 0.8 * np.exp(-((t - 0.4) ** 2) / 0.03)
    elif ycls == "spike":
        y = np.zeros(n)
        y[rng.randrange(n)] = rng.choice([1.0, -1.0, 1e5])
    elif ycls == "zero-sum":
        y = np.array([(-1.0) ** k for k in range(n)])
        if n % 2:
            y[-1] = 0.0
    elif ycls == "zero-moment":
        # zero total AND zero first moment about the sample index, not identically zero (c, -2c, c somewhere)
        y = np.zeros(n)
        if n >= 3:
            a = rng.randrange(n - 2)
            y[a:a + 3] = rng.choice([1.0, -3.0, 0.5]) * np.array([1.0, -2.0, 1.0])
    elif ycls == "tiny":
        y = 1e-300 * np.exp(-(t ** 2) / 0.1)
    elif ycls == "huge":
        y = 1e100 * np.exp(-(t ** 2) / 0.1) * rng.choice([1, -1])
    else:
        y = np.array([float(rng.randint(-5, 5)) for _ in range(n)])
    ecs = [None] + [e for e in (1, 2, 3) if 2 * e <= n]
    edge = rng.choice(ecs)
    return x, y, edge, ycls, direction


def _feed(x, y, edge):
    from event_model import compose_run

    from bluesky.callbacks.fitting import PeakStats

    ps = PeakStats("mx", "dy", edge_count=edge)
    run = compose_run()
    ps("start", run.start_doc)
    d = run.compose_descriptor(name="primary", data_keys={
        "mx": {"dtype": "number", "shape": [], "source": "m"}, "dy": {"dtype": "number", "shape": [], "source": "d"}})
    ps("descriptor", d.descriptor_doc)
    for xi, yi in zip(x, y):
        ps("event", d.compose_event(data={"mx": float(xi), "dy": float(yi)}, timestamps={"mx": 0.0, "dy": 0.0}))
    ps("stop", run.compose_stop())
    return ps


def run_case(case):
    import numpy as np

    out = []
    for i in range(case["start"], case["start"] + case["count"]):
        rng = rng_for(case["seed"], "C44", i)
        x, y, edge, ycls, direction = _make(rng, i)
        n = len(x)
        key = f"{'inc' if direction > 0 else 'dec'}|{ycls}|edge={edge}|n<={[3, 10, 60][(n > 3) + (n > 10)]}"
        sub = {"start": i, "count": 1, "seed": case["seed"]}
        counters = {"runs": 1, "edge_runs": int(edge is not None), "decreasing_x_runs": int(direction < 0)}
        with np.errstate(all="ignore"):
            try:
                ps = _feed(x, y, edge)
            except Exception as e:  # noqa: BLE001
                out.append(R("violated", key, True, sig=f"C44:raises:{type(e).__name__}:{ycls}", detail=repr(e),
                             witness={"x": jsonable(x), "y": jsonable(y), "edge": edge}, counters=counters, case=sub))
                continue
            yb = np.array(y, dtype=float)
            if edge is not None:
                lx, ly = np.mean(x[:edge]), np.mean(yb[:edge])
                rx, ry = np.mean(x[-edge:]), np.mean(yb[-edge:])
                m = (ry - ly) / (rx - lx)
                yb = yb - (m * x + (ly - m * lx))
        problems = []
        xmin, xmax = float(np.min(x)), float(np.max(x))
        scale = max(abs(xmin), abs(xmax), 1e-300)
        ulp = 4 * np.spacing(scale)
        # max / min
        for name, ext in (("max", np.max(yb)), ("min", np.min(yb))):
            rep = getattr(ps, name)
            ok_x = [float(x[k]) for k in range(n) if yb[k] == ext]
            if rep is None or float(rep[0]) not in ok_x:
                problems.append((f"{name}-not-at-extreme", f"reported {rep}, extreme y at x in {ok_x[:3]}"))
            elif edge is None and float(rep[1]) != float(ext):
                problems.append((f"{name}-value-wrong", f"reported {rep}, extreme {ext}"))
        # com
        com = ps.com
        allzero = bool(np.all(yb == 0))
        if com is None or not (xmin - ulp <= float(com) <= xmax + ulp):
            why = "nan" if com is not None and math.isnan(float(com)) else "out-of-range"
            cls = "y-identically-zero" if allzero else ("sum-y-zero" if float(np.sum(yb)) == 0 else "general")
            problems.append((f"com-not-in-range:{why}:{cls}", f"com={com} x range [{xmin},{xmax}]"))
        # crossings
        mid = (np.max(yb) + np.min(yb)) / 2
        above = yb > mid
        pairs = [k for k in range(n - 1) if above[k] != above[k + 1]]
        cr = ps.crossings
        if pairs:
            if cr is None or len(cr) != len(pairs):
                problems.append(("crossing-count", f"reported {None if cr is None else len(cr)} straddling pairs {len(pairs)}"))
            else:
                for k, c in zip(pairs, cr):
                    lo, hi = sorted((float(x[k]), float(x[k + 1])))
                    tol = 1e-9 * (hi - lo) + ulp
                    counters["crossings_checked"] = counters.get("crossings_checked", 0) + 1
                    if not (lo - tol <= float(c) <= hi + tol):
                        problems.append(("crossing-outside-its-pair", f"crossing {c} pair [{lo},{hi}]"))
                        break
                cen = ps.cen
                if cen is None or not (xmin - ulp <= float(cen) <= xmax + ulp):
                    problems.append(("cen-not-in-range", f"cen={cen}"))
                if len(pairs) >= 2:
                    counters["fwhm_checked"] = counters.get("fwhm_checked", 0) + 1
                    exp = abs(float(cr[-1]) - float(cr[0]))
                    if ps.fwhm is None or float(ps.fwhm) != exp:
                        problems.append(("fwhm-not-outermost-distance", f"fwhm={ps.fwhm} expected {exp}"))
                    lo_c, hi_c = min(map(float, cr)), max(map(float, cr))
                    if ps.fwhm is not None and abs(float(ps.fwhm) - (hi_c - lo_c)) > 1e-9 * (hi_c - lo_c) + ulp:
                        problems.append(("fwhm-not-outermost-distance", f"fwhm={ps.fwhm} outermost distance {hi_c - lo_c}"))
        elif cr is not None and len(cr):
            problems.append(("crossing-count", f"reported {len(cr)} crossings but no adjacent pair straddles the half-maximum"))
        nontrivial = ycls not in ("const", "zero")
        if problems:
            seen = set()
            for kind, what in problems:
                sig = f"C44:{kind}"
                if sig in seen:
                    continue
                seen.add(sig)
                out.append(R("violated", key + "|" + kind, True, sig=sig, detail=f"{ycls} n={n} edge={edge}: {what}",
                             witness={"x": jsonable(x), "y": jsonable(y), "edge": edge, "what": what},
                             counters=counters, case=sub))
                counters = {}
        else:
            out.append(R("held", key, nontrivial, counters=counters,
                         sample={"x": jsonable(x[:6]), "y": jsonable(y[:6]), "edge": edge, "max": jsonable(ps.max),
                                 "com": jsonable(ps.com), "crossings": jsonable(ps.crossings), "fwhm": jsonable(ps.fwhm)}
                         if ycls == "gauss" and n >= 7 else None))
    return out
