"""C05 — seq_num and num_events account for every event exactly."""

from __future__ import annotations

from vf import sweepcheck
from vf.oracles.common import landing_info, outcome_class, spec_json
from vf.oracles.docs import numbering
from vf.worker import R

PROPERTY = "C05"
LEVEL = "exploration"
RULE = ("case = one execution of a corpus plan (bundle streams, a monitored signal updated in virtual time, "
        "record_interruptions on, flyer collect) with pause/suspend/deferred pause landing after every loop handle and "
        "resumed (thorough: two interruptions); per run and stream the emitted seq_nums must be exactly 1..num_events, "
        "increase by one between rewinds, repeat only in bundle streams and only across a rewind; distinct = (plan, stream "
        "kinds present, command at landing, kind, #rewinds, outcome); non-trivial = >=1 event existed before the landing")
ASSUMPTIONS = ["rewind marks are the resume() calls and the _start_suspender messages in the log",
               "monitor/collect/interruptions streams are identified by their stream names"]
REQUIRED_COUNTERS = {"executions": 500, "streams_checked": 1000, "events_checked": 3000, "rewinds": 300,
                     "repeats_after_rewind": 50, "monitor_events_seen": 100, "interruption_events_seen": 100}
MANIFEST = {
    "technique": "offline numbering checker over recorded documents with rewind marks from the message/call log, on an "
                 "exhaustive pause/suspend coordinate sweep",
    "category": "exploration",
    "text": "All pause/suspend landing points of plans with bundle, monitor, interruption and collect streams are "
            "executed and resumed; seq_num sets, step-by-one monotonicity between rewinds, legal repeats and num_events "
            "are checked per stream.",
    "note": "Corpus plans (incl. stream-asset collects, points taken with rewinding off, a monitored+configured signal, a stream re-described after clear_checkpoint) uninterrupted and x all coordinates; monitor updates at fixed virtual times.",
    "design_ref": "3 (C05)",
}
PLANS_Q = ["custom_mon", "scan", "fly", "nested", "two_runs", "keys_sparse", "collect_sd", "mon_cfg", "norewind_events", "norewind_point", "clearcp_cfg"]
PLANS_T = PLANS_Q + ["keys_sparse2", "grid", "count", "custom", "neverclose"]
SHARD_TIMEOUT = {"quick": 900, "thorough": 3600}
worker_init = sweepcheck.worker_init


def gen_cases(tier, seed):
    return [{"plan": p_, "plain": True, "seed": seed} for p_ in (PLANS_Q if tier == "quick" else PLANS_T)] + sweepcheck.gen_cases(tier, seed, PLANS_Q, PLANS_T, ["pause", "suspend", "defer"],
                                spec_extra={"record_interruptions": True},
                                pairs=[("pause", "pause"), ("pause", "suspend"), ("suspend", "pause"), ("suspend", "suspend")])


def judge(ex, ref, case):
    li = landing_info(ex, len(ref.h.msgs()))
    key0 = f"{ex.spec['plan']}|" + ("+".join(f"{x['kind']}@{x['command']}" for x in li) or "none")
    if ex.timeout or ex.stuck or ex.final_state != "idle":
        return [R("inconclusive", key0, detail="engine did not come back idle (judged by C07)")]
    if not li and not case.get("plain"):
        return [R("skip", key0, False)]
    docs = [(i, e[1], e[2]) for i, e in enumerate(ex.log) if e[0] == "doc"]
    marks = [i for i, e in enumerate(ex.log) if (e[0] == "call" and e[1] == "resume") or
             (e[0] == "msg" and e[1].command == "_start_suspender")]
    mon = {e[1].kwargs.get("name") for e in ex.log if e[0] == "msg" and e[1].command == "monitor"}
    coll = {"fly_stream"}
    problems, counts = numbering(docs, marks, mon, coll)
    first_inj = next((i for i, e in enumerate(ex.log) if e[0] == "inject"), len(ex.log))
    events_before = sum(1 for i, n, d in docs if n in ("event", "event_page") and i < first_inj)
    kinds_present = sorted({("interruptions" if d.get("name") == "interruptions" else "monitor" if d.get("name") in mon else
                             "collect" if d.get("name") in coll else "bundle") for _, n, d in docs if n == "descriptor"})
    desc_names = {d["uid"]: d.get("name") for _, n, d in docs if n == "descriptor"}
    counters = {"executions": 1, "streams_checked": counts["streams"], "events_checked": counts["events"],
                "rewinds": len(marks), "repeats_after_rewind": counts["repeats_after_rewind"],
                "monitor_events_seen": sum(1 for _, n, d in docs if n == "event" and desc_names.get(d["descriptor"]) in mon),
                "interruption_events_seen": sum(1 for _, n, d in docs if n == "event" and desc_names.get(d["descriptor"]) == "interruptions")}
    key = f"{key0}|{kinds_present}|rewinds={len(marks)}|{outcome_class(ex)}"
    if problems:
        out, seen = [], set()
        for kind, detail in problems:
            after = "after=" + ("+".join(sorted({x["kind"] for x in li})))
            sig = f"C05:{kind}:{after}"
            if sig in seen:
                continue
            seen.add(sig)
            out.append(R("violated", key + "|" + kind, True, sig=sig, detail=f"{key}: {detail}",
                         witness={"spec": spec_json(ex.spec), "landing": li,
                                  "events": [(desc_names.get(d.get("descriptor")), d.get("seq_num")) for _, n, d in docs if n == "event"][:80],
                                  "stops": [d.get("num_events") for _, n, d in docs if n == "stop"]},
                         counters=counters, case={"replay_spec": spec_json(ex.spec)}))
            counters = {}
        return out
    return [R("held", key, events_before > 0, counters=counters,
              sample={"plan": ex.spec["plan"], "inj": ex.spec.get("inj"), "rewinds": len(marks),
                      "events": [(desc_names.get(d.get("descriptor")), d.get("seq_num")) for _, n, d in docs if n == "event"][:40]}
              if counts["repeats_after_rewind"] else None)]


def run_case(case):
    if case.get("plain"):
        from vf.sweep import reference_coords

        ref, _ = reference_coords({"plan": case["plan"], "record_interruptions": True})
        return judge(ref, ref, case)
    return sweepcheck.run_case(case, judge, decisions=(), first_decisions=("resume", "resume", "resume", "resume"))
