"""C12 — device errors reach the plan at the message that caused them."""

from __future__ import annotations

from bluesky.utils import FailedStatus, RunEngineInterrupted

from vf.oracles.common import outcome_class, quiet_logging, spec_json
from vf.sweep import execute, reference_coords
from vf.worker import R

PROPERTY = "C12"
LEVEL = "fault_enumeration"
RULE = ("case = one execution of a corpus plan (traced: every yield logs the response or exception it receives) in which ONE "
        "device operation - every (device, op in {set, trigger, read, stage, unstage, kickoff, complete, collect, locate (sync and coroutine, single and multi-device messages)}, n-th "
        "occurrence) of the uninterrupted run - is made to raise synchronously, to return a status that fails at once, or "
        "one that fails later (incl. library count over a triggerable detector and a trigger-less signal in both orders, where a failed trigger status must arrive before the next checkpoint whether or not a wait is found), crossed with a plan that ignores, handles (recovers and returns) or transforms the error; plus a plan whose set is waited for only after later checkpoints, with a pause+resume or a suspension landing at every loop coordinate before the status fails; "
        "oracle: synchronous failure -> thrown at the yield of the causing message, same object; failed status -> thrown "
        "at a yield between the causing message and the wait on its group, as FailedStatus with the device exception as "
        "__cause__; the call then ends as the plan's reaction dictates; distinct = (device op, failure mode, reaction, "
        "delivery offset in yields); non-trivial = always (every case is a fault)")
ASSUMPTIONS = ["statuses nobody waits for that fail after the plan has moved on are not judged",
               "fail-later = the status fails 0.05 virtual s after its nominal completion time"]
REQUIRED_COUNTERS = {"executions": 200, "sync_failures_judged": 100, "status_failures_judged": 80, "handled": 60,
                     "transformed": 60, "ignored": 60, "interrupted_before_wait": 40}
MANIFEST = {
    "technique": "exhaustive device-fault enumeration with a self-instrumented plan: delivery point, exception identity and "
                 "cause chain compared with the injected fault",
    "category": "fault_enumeration",
    "text": "Every device operation of every corpus plan is failed in three modes under three plan reactions; the traced "
            "plan records where and what was thrown at it, and the call outcome must follow the reaction.",
    "note": "Corpus plans (incl. locate in all shapes, motions waited for after later checkpoints / after open_run); one fault per execution, optionally a pause or suspension before the wait.",
    "design_ref": "3 (C12)",
}
PLANS_Q = ["scan", "custom", "fly", "count", "nested", "locate2", "late_wait2", "count_mixed", "count_mixed_first"]
# plans made of library stubs only: whatever they start they wait for before the next checkpoint, so for them "never after an
# unrelated later checkpoint" is judged even when no wait on the group is found
LIB_PLANS = {"count", "scan", "count_mixed", "count_mixed_first", "grid", "list_scan", "rel_scan"}
PLANS_T = PLANS_Q + ["grid", "rel_scan", "list_scan", "neverclose", "two_runs", "mixed"]
SHARD_TIMEOUT = {"quick": 900, "thorough": 3600}
OPS = ("set", "trigger", "read", "stage", "unstage", "kickoff", "complete", "collect", "locate")


def worker_init(tier, seed):
    quiet_logging()


def gen_cases(tier, seed):
    cases = []
    for p in (PLANS_Q if tier == "quick" else PLANS_T):
        for w in ("traced", "traced-handle", "traced-transform"):
            cases.append({"plan": p, "wrap_name": w, "seed": seed})
    # a status that fails AFTER a pause+resume / suspension which landed between its message and the wait on its group
    for kind in ("pause", "suspend"):
        for w in ("traced", "traced-handle"):
            for sl in range(3):
                cases.append({"plan": "late_wait", "wrap_name": w, "seed": seed, "interrupt": kind, "slice": [sl, 3]})
    return cases


def judge(ex, case):
    log = ex.log
    f = next((i for i, e in enumerate(log) if e[0] == "fault"), None)
    spec = ex.spec
    fk = spec["faults"][0]
    key0 = f"{spec['plan']}|{fk[0][0]}.{fk[0][1]}#{fk[0][2]}:{fk[1]}|{spec['wrap_name']}"
    if ex.timeout or ex.stuck:
        return [R("inconclusive", key0, detail="engine did not come back")]
    if f is None:
        return [R("skip", key0, False, detail="fault point not reached")]
    _, dev, op, mode, exc = log[f]
    # the causing message: the last processed message before the fault
    mi = max(i for i in range(f) if log[i][0] == "msg")
    cmsg = log[mi][1]
    yields = [(i, e) for i, e in enumerate(log) if e[0] == "plan" and e[1] == "yield"]
    yi = next((e[3] for i, e in yields if e[4] is cmsg), None)
    if yi is None:
        return [R("skip", key0, False, detail="causing message not yielded by the traced plan")]
    thrown = [(i, e) for i, e in enumerate(log) if e[0] == "plan" and e[1] == "thrown"]
    problems = []
    counters = {"executions": 1, "sync_failures_judged": 0, "status_failures_judged": 0,
                {"traced": "ignored", "traced-handle": "handled", "traced-transform": "transformed"}[spec["wrap_name"]]: 1}
    offset = None
    got = None
    if mode == "raise":
        counters["sync_failures_judged"] = 1
        got = next((e for i, e in thrown if i > f), None)
        if got is None:
            problems.append(("sync-failure-never-reached-the-plan", f"{dev}.{op} raised {exc!r}; nothing was thrown at the plan"))
        else:
            offset = got[3] - yi
            if got[3] != yi:
                problems.append((f"sync-failure-delivered-at-wrong-yield:offset={offset}", f"thrown at yield {got[3]}, causing message at yield {yi}"))
            if got[4] is not exc:
                problems.append(("sync-failure-exception-replaced", f"plan received {got[4]!r}, device raised {exc!r}"))
    else:
        counters["status_failures_judged"] = 1
        grp = cmsg.kwargs.get("group")
        # wait on its group: first traced 'wait' yield after yi with that group
        w = None
        for i, e in yields:
            if e[3] > yi and e[4].command == "wait":
                g = e[4].kwargs.get("group", e[4].args[0] if e[4].args else None)
                if g == grp:
                    w = e[3]
                    break
        got = next((e for i, e in thrown if i > f), None)
        if w is None and spec["plan"] in LIB_PLANS:
            counters["unwaited_in_library_plan_judged"] = 1
            cps = [e[3] for i, e in yields if e[3] > yi and e[4].command == "checkpoint"]
            if got is None:
                problems.append(("failed-status-never-reached-the-plan", f"{dev}.{op} status failed ({mode}); nothing thrown; the library plan never waits on group {grp!r}"))
            elif cps and got[3] > cps[0]:
                problems.append(("failed-status-delivered-after-unrelated-later-checkpoint",
                                 f"thrown at yield {got[3]}, message at {yi}, next checkpoint at yield {cps[0]}; no wait on group {grp!r} in between"))
            w = got[3] if got is not None else yi
        elif w is None:
            return [R("skip", key0, False, detail="status of this message is never waited for", counters={"executions": 1})]
        if got is None:
            problems.append(("failed-status-never-reached-the-plan", f"{dev}.{op} status failed ({mode}); nothing thrown; wait at yield {w}"))
        else:
            offset = got[3] - yi
            if not (yi <= got[3] <= w):
                problems.append((f"failed-status-delivered-outside-[message,wait]:{'late' if got[3] > w else 'early'}",
                                 f"thrown at yield {got[3]}, message at {yi}, wait at {w}"))
            if not isinstance(got[4], FailedStatus):
                problems.append((f"failed-status-surfaced-as-{type(got[4]).__name__}", repr(got[4])))
            elif got[4].__cause__ is not exc:
                problems.append(("FailedStatus-not-chained-to-device-exception", f"__cause__={got[4].__cause__!r}"))
    # outcome by reaction
    r = dict(ex.calls).get("RE")
    if case.get("interrupt") and ex.calls:
        r = ex.calls[-1][1]      # the call that ended the run (RE(...) itself, or the resume() after a pause)
    if got is not None and r is not None:
        if spec["wrap_name"] == "traced":
            if r[0] != "exc" or r[1] is not got[4]:
                problems.append(("unhandled-error-not-reraised-as-is", f"call ended {r[0]}:{r[1]!r}, plan had received {got[4]!r}"))
        elif spec["wrap_name"] == "traced-handle":
            if r[0] != "ret" or not any(e[0] == "msg" and e[1].args == ("recovered",) for e in log[f:]):
                problems.append(("handled-error-did-not-let-the-plan-continue", f"call ended {r[0]}:{r[1]!r}"))
        else:
            if r[0] != "exc" or not isinstance(r[1], KeyError) or r[1].__cause__ is not got[4]:
                problems.append(("transformed-error-not-raised", f"call ended {r[0]}:{r[1]!r}"))
    key = f"{key0}|offset={offset}|{outcome_class(ex)}"
    if problems:
        out, seen = [], set()
        for kd, detail in problems:
            sig = f"C12:{kd}:{op}:{mode}"
            if sig in seen:
                continue
            seen.add(sig)
            out.append(R("violated", key + "|" + kd, True, sig=sig, detail=f"{key}: {detail}",
                         witness={"spec": spec_json(spec), "causing": f"{cmsg.command}({getattr(cmsg.obj, 'name', None)})",
                                  "yield_index": yi, "calls": outcome_class(ex)},
                         counters=counters, case={"replay_spec": spec_json(spec)}))
            counters = {}
        return out
    return [R("held", key, True, counters=counters,
              sample={"plan": spec["plan"], "fault": spec["faults"], "reaction": spec["wrap_name"],
                      "causing_message": f"{cmsg.command}({getattr(cmsg.obj, 'name', None)})", "yield_index": yi,
                      "delivered_at_offset": offset, "calls": outcome_class(ex)} if mode == "fail-later" else None)]


def run_case(case):
    if "replay_spec" in case:
        return judge(execute(case["replay_spec"]), case)
    if case.get("interrupt"):
        base = {"plan": case["plan"], "wrap_name": case["wrap_name"], "dev_kwargs": {"motor_delay": 0.3}}
        ref, coords = reference_coords(base)
        out = []
        a, n = case["slice"]
        for c in coords[a::n]:
            ex = execute(dict(base, faults=[[["m1", "set", 1], "fail-later"]], inj=[[c[0], c[1], case["interrupt"], {}]],
                              decisions=["resume", "resume"]))
            rs = judge(ex, case)
            for r in rs:
                if r.get("counters"):
                    r["counters"]["interrupted_before_wait"] = int(any(e[0] == "inject" for e in ex.log))
            out += rs
        return out
    ref, _ = reference_coords({"plan": case["plan"]})
    ops, counts = [], {}
    for e in ref.log:
        if e[0] == "dev" and e[2] in OPS:
            k = (e[1], e[2])
            counts[k] = counts.get(k, 0) + 1
            ops.append((e[1], e[2], counts[k]))
    out = []
    for (dev, op, n) in ops:
        for mode in ["raise"] + (["fail-now", "fail-later"] if op in ("set", "trigger", "kickoff", "complete") else []):
            ex = execute({"plan": case["plan"], "wrap_name": case["wrap_name"], "faults": [[[dev, op, n], mode]],
                          "decisions": []})
            out += judge(ex, case)
    return out
