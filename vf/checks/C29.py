"""C29 — adaptive and tuning scans terminate and stay within their range."""

from __future__ import annotations

import math

from vf.common import jsonable, rng_for
from vf.worker import R

PROPERTY = "C29"
LEVEL = "exploration"
RULE = ("case = one pure-generator drive of adaptive_scan / tune_centroid with a seeded parameter vector (start/stop in both "
        "directions, min/max step, target_delta, backstep, threshold in (0,1); num>=2, step_factor>1, snake) and a response "
        "function of the commanded position from classes {smooth gaussian, linear ramp, step edge, constant, zero, narrow "
        "peak, deterministic pseudo-noise, huge values, tiny values}; oracle: every commanded position lies between start "
        "and stop (tolerance 1e-9*range), tune_centroid's final park position too (non-negative signals); termination: a "
        "drive that exceeds the iteration bound is reported as a violation only if the plan's loop state (read from the "
        "generator frame) has recurred under the stateless response (proof of divergence), otherwise inconclusive; "
        "distinct = (plan, response class, direction, backstep/snake, step regime)")
ASSUMPTIONS = ["parameter domain: min_step>0, max_step>min_step, 0<threshold<1, num>=2, step_factor>1, finite responses",
               "iteration bound: 50 * (range/min_step + 10) messages-loops for adaptive_scan; 200*(num+1)*log-passes for tune_centroid"]
REQUIRED_COUNTERS = {"drives": 600, "positions_checked": 10000, "adaptive_backstep_drives": 80, "reverse_direction_drives": 150,
                     "tune_park_checked": 150}
MANIFEST = {
    "technique": "range post-condition on every commanded position of the real plan generators driven with seeded response "
                 "functions + bounded-progress monitor with state-recurrence proof of divergence",
    "category": "exploration",
    "text": "adaptive_scan and tune_centroid are driven as generators against deterministic response functions of many "
            "shapes; every commanded position and the final park position are range-checked, and non-termination is only "
            "ever reported from an observed recurrence of the plan's own loop state.",
    "note": "Sampled parameters/responses; liveness restated as bounded progress (a finite run cannot decide 'terminates').",
    "design_ref": "6 (C29)",
}
RESP = ["gauss", "ramp", "edge", "const", "zero", "narrow", "noise", "huge", "tiny"]


def gen_cases(tier, seed):
    n = 800 if tier == "quick" else 12000
    return [{"start": s, "count": 40, "seed": seed} for s in range(0, n, 40)]


def response(cls, lo, hi, rng_seed):
    mid, w = (lo + hi) / 2, max(hi - lo, 1e-9)
    if cls == "gauss":
        return lambda x: 100.0 * math.exp(-((x - (lo + 0.3 * w)) ** 2) / (0.02 * w * w))
    if cls == "ramp":
        return lambda x: 3.0 * (x - lo) / w + 1.0
    if cls == "edge":
        return lambda x: 50.0 if x > mid else 1.0
    if cls == "const":
        return lambda x: 7.0
    if cls == "zero":
        return lambda x: 0.0
    if cls == "narrow":
        return lambda x: 1e4 * math.exp(-((x - (hi - 0.1 * w)) ** 2) / (1e-4 * w * w))
    if cls == "noise":
        return lambda x: 5.0 + 4.0 * math.sin(1e3 * x + rng_seed) * math.cos(37.0 * x)
    if cls == "huge":
        return lambda x: 1e200 * (1.0 + (x - lo) / w)
    return lambda x: 1e-200 * (1.0 + (x - lo) / w)


def find_frame(gen, names):
    seen = 0
    g = gen
    while g is not None and seen < 50:
        fr = getattr(g, "gi_frame", None)
        if fr is not None and fr.f_code.co_name in names:
            return fr
        nxt = getattr(g, "gi_yieldfrom", None)
        if nxt is None and hasattr(g, "_iter"):
            nxt = g._iter
        g = nxt
        seen += 1
    return None


def run_case(case):
    import bluesky.plans as bp
    from vf.devices import Det, Motor

    out = []
    for i in range(case["start"], case["start"] + case["count"]):
        rng = rng_for(case["seed"], "C29", i)
        sub = {"start": i, "count": 1, "seed": case["seed"]}
        which = "adaptive_scan" if i % 2 == 0 else "tune_centroid"
        a = rng.choice([0.0, -5.0, 2.5, 100.0])
        span = rng.choice([1.0, 4.0, 0.3, 25.0])
        reverse = rng.random() < 0.4
        start, stop = (a + span, a) if reverse else (a, a + span)
        lo, hi = min(start, stop), max(start, stop)
        cls = RESP[(i // 2) % len(RESP)]
        f = response(cls, lo, hi, i)
        motor = Motor("mot", delay=None, pos=start)
        det = Det("det", delay=None)
        params = {}
        if which == "adaptive_scan":
            min_step = span / rng.choice([20, 50, 200])
            max_step = span / rng.choice([2, 4, 10])
            params = {"min_step": min_step, "max_step": max_step, "target_delta": rng.choice([0.1, 1.0, 10.0]),
                      "backstep": rng.random() < 0.6, "threshold": rng.choice([0.3, 0.8, 0.95])}
            gen = bp.adaptive_scan([det], "det", motor, start, stop, **params)
            bound = int(50 * (span / min_step + 10))
            frame_names = ("adaptive_core",)
            state_vars = ("next_pos", "step", "past_I")
        else:
            num = rng.choice([2, 3, 5, 10])
            min_step = span / rng.choice([30, 100, 1000])
            params = {"num": num, "min_step": min_step, "step_factor": rng.choice([1.5, 3.0, 10.0]), "snake": rng.random() < 0.5}
            gen = bp.tune_centroid([det], "det", motor, start, stop, params["min_step"], num, params["step_factor"], params["snake"])
            bound = int(200 * (num + 1) * (math.log(span / min_step) / math.log(params["step_factor"]) + 3))
            frame_names = ("_tune_core",)
            state_vars = ("next_pos", "step", "start", "stop", "sum_I", "sum_xI")
        pos = start
        commanded = []
        loops = 0
        seen_states = set()
        outcome = None
        recurrence = False
        tol = 1e-9 * span
        try:
            msg = gen.send(None)
            while True:
                resp = None
                if msg.command == "set":
                    pos = float(msg.args[0])
                    commanded.append(pos)
                elif msg.command == "read":
                    if msg.obj is det:
                        resp = {"det": {"value": f(pos), "timestamp": 0.0}}
                    else:
                        resp = {"mot": {"value": pos, "timestamp": 0.0}}
                elif msg.command == "checkpoint":
                    loops += 1
                    fr = find_frame(gen, frame_names)
                    if fr is not None:
                        st = tuple(repr(fr.f_locals.get(v)) for v in state_vars)
                        if st in seen_states:
                            recurrence = True
                            outcome = ("diverges", st)
                            break
                        seen_states.add(st)
                    if loops > bound:
                        outcome = ("bound-exceeded", loops)
                        break
                elif msg.command == "open_run":
                    resp = "uid"
                elif msg.command in ("stage", "unstage"):
                    resp = [msg.obj]
                msg = gen.send(resp)
        except StopIteration:
            outcome = ("return", None)
        except Exception as e:  # noqa: BLE001
            outcome = ("raise", e)
        gen.close()
        counters = {"drives": 1, "positions_checked": len(commanded),
                    "adaptive_backstep_drives": int(which == "adaptive_scan" and params.get("backstep", False)),
                    "reverse_direction_drives": int(reverse), "tune_park_checked": 0}
        key = f"{which}|{cls}|{'rev' if reverse else 'fwd'}|{params.get('backstep', params.get('snake'))}"
        problems = []
        if outcome[0] == "diverges":
            problems.append((f"{which}:diverges:{cls}", f"loop state {outcome[1]} recurred after {loops} iterations; params {params}"))
        elif outcome[0] == "bound-exceeded":
            out.append(R("inconclusive", key, detail=f"{which}: {loops} iterations without termination or recurrence (bound {bound})",
                         counters=counters))
            continue
        elif outcome[0] == "raise":
            problems.append((f"{which}:raises:{type(outcome[1]).__name__}:{cls}", repr(outcome[1])))
        for k, p in enumerate(commanded):
            if not (lo - tol <= p <= hi + tol):
                last = which == "tune_centroid" and k == len(commanded) - 1
                if last:
                    counters["tune_park_checked"] = 1
                side = "beyond-stop" if (p - stop) * (1 if stop >= start else -1) > 0 else "before-start"
                problems.append((f"{which}:{'park-' if last else ''}position-out-of-range:{side}:{cls}",
                                 f"commanded {p} (#{k}) outside [{lo}, {hi}]; params {params}"))
                break
        else:
            if which == "tune_centroid" and commanded:
                counters["tune_park_checked"] = 1
        if problems:
            for kd, detail in problems[:2]:
                out.append(R("violated", key + "|" + kd, True, sig=f"C29:{kd}", detail=detail,
                             witness={"plan": which, "start": start, "stop": stop, "params": jsonable(params), "response": cls,
                                      "commanded": commanded[:60]}, counters=counters, case=sub))
                counters = {}
        else:
            out.append(R("held", key, len(commanded) >= 3, counters=counters,
                         sample={"plan": which, "start": start, "stop": stop, "params": jsonable(params), "response": cls,
                                 "n_positions": len(commanded), "first": commanded[:5], "last": commanded[-2:]}
                         if cls in ("gauss", "edge") and len(commanded) > 6 else None))
    return out
