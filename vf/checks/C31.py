"""C31 — installed suspenders gate plan start and removal releases waiters."""

from __future__ import annotations

import threading
import time

from bluesky.utils import Msg

from vf.common import rng_for
from vf.devices import Sig
from vf.oracles.common import quiet_logging
from vf.reh import Harness, Stuck, WallTimeout
from vf.worker import R

PROPERTY = "C31"
LEVEL = "exploration"
RULE = ("case = one real-time history (each <= ~0.6 s) on a real RunEngine with a real suspender object (SuspendBoolHigh / "
        "SuspendBoolLow / SuspendFloor / SuspendCeil) on a fake signal, driven by real helper threads: shapes {tripped "
        "before the call then released by a thread; tripped before the call then REMOVED by a thread; tripped and released "
        "during the call; removed, then the signal changes while a plan runs; removed twice; installed/removed in-plan by "
        "suspend_wrapper; tripped, removed before the call; held at the start gate, paused, the suspender removed while paused, resumed; two tripped suspenders with identical justification text released at different times; a suspender installed by the plan (suspend_wrapper) while its signal is already out of range}, with seeded delays; oracles on the shared log: tripped at "
        "call start => the first message is wait_for and no plan message precedes the begin of the releasing put / "
        "removal; removal while suspended => the wait ends (a quiescent loop with the call outstanding is 'stuck'); after "
        "removal the suspender reacts to nothing (no suspension starts, no callback left on the signal); a second removal "
        "raises nothing; distinct = (history shape, suspender class, delay class)")
ASSUMPTIONS = ["real time with delays of 50-200 ms: ordering verdicts come from the shared log, never from wall-clock stamps",
               "wall-clock watchdog (20 s) => inconclusive",
               "'stuck' = loop quiescent for 0.6 s with the call outstanding AND, for the same history run again, for 3 s (a wedged engine stays wedged; a loop thread starved on a loaded machine does not - seen once at load 38)"]
REQUIRED_COUNTERS = {"histories": 60, "gated_starts": 15, "removals_while_suspended": 10, "post_removal_changes": 10,
                     "double_removals": 10, "removals_while_paused": 6, "two_gate_starts": 6,
                     "inplan_install_tripped": 6}
MANIFEST = {
    "technique": "shared-log ordering oracle over real-thread histories with real suspender classes on a fake signal, plus "
                 "loop-quiescence stuck detection",
    "category": "exploration",
    "text": "Install / trip / release / remove histories are executed with real helper threads against the real suspender "
            "classes and RunEngine; gating of the plan start, release by removal, silence after removal and harmless "
            "double removal are judged on the ordered log.",
    "note": "Real time (short); few hundred histories; thread timing varied by seeded delays.",
    "design_ref": "7 (C31)",
}
SHAPES = ["gate-release", "gate-remove", "trip-during", "removed-then-change", "double-remove", "wrapper", "trip-remove-before",
          "gate-pause-remove-resume", "two-gates", "wrapper-already-tripped"]
SHARD_TIMEOUT = {"quick": 900, "thorough": 3600}


def worker_init(tier, seed):
    quiet_logging()


def gen_cases(tier, seed):
    n = 120 if tier == "quick" else 1500
    return [{"start": s, "count": 3, "seed": seed} for s in range(0, n, 3)]


def mk_suspender(rng, sig):
    import bluesky.suspenders as bs

    cls = rng.choice(["SuspendBoolHigh", "SuspendBoolLow", "SuspendFloor", "SuspendCeil"])
    if cls == "SuspendBoolHigh":
        return cls, bs.SuspendBoolHigh(sig), 1, 0
    if cls == "SuspendBoolLow":
        return cls, bs.SuspendBoolLow(sig), 0, 1
    if cls == "SuspendFloor":
        return cls, bs.SuspendFloor(sig, 5), 1, 9
    return cls, bs.SuspendCeil(sig, 5), 9, 1


def run_case(case):
    import bluesky.preprocessors as bpp

    out = []
    todo = list(range(case["start"], case["start"] + case["count"]))
    pos, confirming_next = 0, False
    while pos < len(todo):
        i = todo[pos]
        pos += 1
        # 'stuck' is decided from wall-clock quiescence of the loop (0.6 s): a verdict only when the SAME history is stuck
        # again under a 3 s threshold (a wedged engine stays wedged; a loop thread starved on a loaded machine does not)
        confirming, confirming_next = confirming_next, False
        rng = rng_for(case["seed"], "C31", i)
        sub = {"start": i, "count": 1, "seed": case["seed"]}
        shape = SHAPES[i % len(SHAPES)]
        h = Harness(virtual=False, stuck_after=3.0 if confirming else 0.6)
        RE = h.RE
        sig = Sig("sig", h.log, value=0)
        cls, sus, bad, good = mk_suspender(rng, sig)
        sig.value = good
        d1 = rng.choice([0.05, 0.1, 0.2])
        d2 = d1 + rng.choice([0.05, 0.15])
        problems = []
        counters = {"histories": 1, "gated_starts": 0, "removals_while_suspended": 0, "post_removal_changes": 0,
                    "double_removals": 0, "removals_while_paused": 0, "two_gate_starts": 0,
                    "inplan_install_tripped": 0, "stuck_at_0.6s_not_reproduced_at_3s": 0}
        threads = []
        trip_done = threading.Event()

        def later(delay, label, fn):
            def run():
                time.sleep(delay)
                h.log.append(("helper", label, "begin"))
                try:
                    fn()
                    h.log.append(("helper", label, "end"))
                except BaseException as e:  # noqa: BLE001
                    h.log.append(("helper", label, "raised", e))
                finally:
                    with h._hlock:
                        h.helpers_pending -= 1
            with h._hlock:
                h.helpers_pending += 1
            t = threading.Thread(target=run, daemon=True)
            threads.append(t)
            t.start()

        def plan(n=3, nap=0.0):
            for k in range(n):
                yield Msg("checkpoint")
                yield Msg("null", None, "plan", k)
                if nap:
                    yield Msg("sleep", None, nap)

        res = None
        try:
            if shape == "gate-release":
                RE.install_suspender(sus)
                sig.put(bad)
                later(d1, "release", lambda: sig.put(good))
                res = h.call("RE", RE, plan())
                counters["gated_starts"] = 1
            elif shape == "gate-remove":
                RE.install_suspender(sus)
                sig.put(bad)
                later(d1, "remove", lambda: RE.remove_suspender(sus))
                res = h.call("RE", RE, plan())
                counters["gated_starts"] = 1
                counters["removals_while_suspended"] = 1
            elif shape == "trip-during":
                RE.install_suspender(sus)
                later(d1, "trip", lambda: (sig.put(bad), trip_done.set()))
                later(d2, "release", lambda: (trip_done.wait(5), sig.put(good)))   # never before the trip (loaded machine)
                res = h.call("RE", RE, plan(4, 0.1))
            elif shape == "removed-then-change":
                RE.install_suspender(sus)
                RE.remove_suspender(sus)
                later(d1, "change", lambda: sig.put(bad))
                res = h.call("RE", RE, plan(4, 0.08))
                counters["post_removal_changes"] = 1
            elif shape == "double-remove":
                RE.install_suspender(sus)
                sig.put(bad)
                RE.remove_suspender(sus)
                try:
                    RE.remove_suspender(sus)
                    sus.remove()
                    counters["double_removals"] = 1
                except Exception as e:  # noqa: BLE001
                    problems.append((f"second-removal-raised:{type(e).__name__}", repr(e)))
                res = h.call("RE", RE, plan())
            elif shape == "wrapper":
                later(d1, "trip", lambda: (sig.put(bad), trip_done.set()))
                later(d2, "release", lambda: (trip_done.wait(5), sig.put(good)))   # never before the trip (loaded machine)
                res = h.call("RE", RE, bpp.suspend_wrapper(plan(4, 0.1), [sus]))
            elif shape == "wrapper-already-tripped":
                # the plan itself installs a suspender whose signal is already out of range: it trips on installation
                sig.put(bad)
                later(d2, "release", lambda: sig.put(good))
                res = h.call("RE", RE, bpp.suspend_wrapper(plan(3, 0.0), [sus]))
                counters["inplan_install_tripped"] = 1
            elif shape == "gate-pause-remove-resume":
                # held at the start gate, paused during the hold, the suspender removed while paused, then resumed
                RE.install_suspender(sus)
                sig.put(bad)
                later(d1, "pause", RE.request_pause)
                r0 = h.call("RE", RE, plan())
                for t in threads:
                    t.join(3)
                if RE.state != "paused":
                    # the helper's request_pause came too early / too late on a loaded machine: history not produced
                    out.append(R("skip", f"{shape}|{cls}|pause-did-not-land", False, detail=f"state {RE.state}, call {r0[0]}"))
                    h.close()
                    continue
                else:
                    h.log.append(("helper", "remove", "begin"))
                    RE.remove_suspender(sus)
                    h.log.append(("helper", "remove", "end"))
                    counters["removals_while_suspended"] = 1
                    counters["removals_while_paused"] = 1
                    res = h.call("resume", RE.resume)
            elif shape == "two-gates":
                # two tripped suspenders with the SAME justification text, released at different times
                sig2 = Sig("sig", h.log, value=0)
                _, sus2, _, _ = mk_suspender(rng_for(case["seed"], "C31", i), sig2)
                sig2.value = good
                RE.install_suspender(sus)
                RE.install_suspender(sus2)
                sig.put(bad)
                sig2.put(bad)
                first, second = (sig, sig2) if rng.random() < 0.5 else (sig2, sig)
                later(d1, "release-first", lambda: first.put(good))
                later(d2 + 0.1, "release", lambda: second.put(good))
                res = h.call("RE", RE, plan())
                counters["gated_starts"] = 1
                counters["two_gate_starts"] = 1
            else:  # trip-remove-before
                RE.install_suspender(sus)
                sig.put(bad)
                RE.remove_suspender(sus)
                res = h.call("RE", RE, plan())
        except Stuck:
            if not confirming:
                for t in threads:
                    t.join(3)
                try:
                    h.close()
                except Exception:  # noqa: BLE001
                    pass
                pos -= 1
                confirming_next = True
                continue
            problems.append((f"stuck:{shape}", "loop quiescent while the call was outstanding: the wait was never released"))
        except WallTimeout:
            out.append(R("inconclusive", shape, detail="wall-clock watchdog"))
            h.close()
            continue
        for t in threads:
            t.join(3)
        if confirming and not any(pr[0].startswith("stuck") for pr in problems):
            counters["stuck_at_0.6s_not_reproduced_at_3s"] = 1
        if RE.state == "paused":
            RE.abort()
        log = list(h.log)
        h.close()
        if res is not None and res[0] != "ret":
            problems.append((f"call-failed:{type(res[1]).__name__}:{shape}", repr(res[1])[:200]))
        msgs = [(j, e[1]) for j, e in enumerate(log) if e[0] == "msg"]
        plan_msgs = [(j, m) for j, m in msgs if m.command == "null" and m.args[:1] == ("plan",)]
        if shape == "wrapper-already-tripped" and not problems:
            rel = next((j for j, e in enumerate(log) if e[0] == "helper" and e[1] == "release" and e[2] == "begin"), None)
            inst = next((j for j, m in msgs if m.command == "install_suspender"), None)
            if rel is not None and inst is not None and inst < rel:
                # (the request takes effect a few messages later, like any trip during a run: judged from _start_suspender)
                started = [j for j, m in msgs if m.command == "_start_suspender"]
                if not started:
                    problems.append(("installed-tripped-suspender-never-suspended", f"{[m.command for _, m in msgs][:8]}"))
                else:
                    early = [j for j, m in plan_msgs if started[0] < j < rel]
                    if early:
                        problems.append(("plan-message-while-suspended", f"plan message at log {early[0]}, release began at {rel}"))
            if len(plan_msgs) < 3:
                problems.append(("plan-incomplete-after-suspension", f"{len(plan_msgs)} plan messages"))
            if sig.subs or RE.suspenders:
                problems.append(("suspend_wrapper-left-suspender-installed", f"{len(sig.subs)} subs"))
        if shape == "gate-pause-remove-resume" and not problems:
            if len(plan_msgs) != 3:
                problems.append(("plan-did-not-run-after-removal-while-paused", f"{len(plan_msgs)} plan messages"))
            begin = next((j for j, e in enumerate(log) if e[0] == "helper" and e[1] == "remove" and e[2] == "begin"), None)
            if plan_msgs and begin is not None and plan_msgs[0][0] < begin:
                problems.append(("plan-ran-before-remove", f"first plan message at log {plan_msgs[0][0]}, removal at {begin}"))
        overtaken = False
        if shape in ("gate-release", "gate-remove", "two-gates") and not problems:
            lab0 = "remove" if shape == "gate-remove" else ("release-first" if shape == "two-gates" else "release")
            b0 = next((j for j, e in enumerate(log) if e[0] == "helper" and e[1] == lab0 and e[2] == "begin"), None)
            if b0 is not None and (not msgs or b0 < msgs[0][0]):
                # on a loaded machine the helper thread acted before the engine had looked at its suspenders: the history
                # that was meant to be judged did not happen (wall-clock artefact, not a verdict)
                overtaken = True
        if overtaken:
            out.append(R("skip", f"{shape}|{cls}|overtaken", False, detail="helper thread ran before the call started"))
            continue
        if shape in ("gate-release", "gate-remove", "two-gates") and not problems:
            if not msgs or msgs[0][1].command != "wait_for":
                problems.append(("tripped-suspender-did-not-gate-the-start", f"first message: {msgs[0][1].command if msgs else None}"))
            lab = "remove" if shape == "gate-remove" else "release"   # (two-gates: 'release' is the LATER of the two)
            begin = next((j for j, e in enumerate(log) if e[0] == "helper" and e[1] == lab and e[2] == "begin"), None)
            if begin is None:
                problems.append(("harness-helper-never-ran", shape))
            elif plan_msgs and plan_msgs[0][0] < begin:
                problems.append((f"plan-ran-before-{lab}", f"first plan message at log {plan_msgs[0][0]}, {lab} began at {begin}"))
            if len(plan_msgs) != 3:
                problems.append((f"plan-did-not-run-after-{lab}", f"{len(plan_msgs)} plan messages"))
        if shape in ("removed-then-change", "double-remove", "trip-remove-before"):
            if any(m.command in ("_start_suspender", "wait_for") for _, m in msgs):
                problems.append((f"removed-suspender-still-suspends:{shape}", f"{[m.command for _, m in msgs][:6]}"))
            if sig.subs:
                problems.append(("removed-suspender-still-subscribed", f"{len(sig.subs)} callback(s) on the signal"))
        if shape == "wrapper":
            if sig.subs:
                problems.append(("suspend_wrapper-left-subscription", f"{len(sig.subs)}"))
            if RE.suspenders:
                problems.append(("suspend_wrapper-left-suspender-installed", f"{RE.suspenders}"))
        if shape in ("trip-during", "wrapper") and not problems:
            trip = next((j for j, e in enumerate(log) if e[0] == "helper" and e[1] == "trip" and e[2] == "end"), None)
            rel = next((j for j, e in enumerate(log) if e[0] == "helper" and e[1] == "release" and e[2] == "begin"), None)
            started = [j for j, m in msgs if m.command == "_start_suspender"]
            if trip is not None and rel is not None and started:
                bad_msgs = [j for j, m in plan_msgs if started[0] < j < rel]
                if bad_msgs:
                    problems.append(("plan-message-while-suspended", f"plan message at log {bad_msgs[0]} between suspension start {started[0]} and release {rel}"))
            if len(plan_msgs) < 4:
                problems.append(("plan-incomplete-after-suspension", f"{len(plan_msgs)} distinct... plan messages"))
        key = f"{shape}|{cls}|d={d1}"
        if problems:
            seen = set()
            for kd, detail in problems:
                sig_ = f"C31:{kd}"
                if sig_ in seen:
                    continue
                seen.add(sig_)
                out.append(R("violated", key + "|" + kd, True, sig=sig_, detail=f"{key}: {detail}",
                             witness={"shape": shape, "class": cls, "log": [(e[0], str(e[1])[:40], str(e[2])[:30] if len(e) > 2 else None)
                                                                            for e in log if e[0] in ("msg", "helper", "call", "ret", "exc")][:40]},
                             counters=counters, case=sub))
                counters = {}
        else:
            out.append(R("held", key, True, counters=counters,
                         sample={"shape": shape, "class": cls, "messages": [m.command for _, m in msgs][:12]} if shape.startswith("gate") else None))
    return out
