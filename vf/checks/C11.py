"""C11 — suspension holds the plan until release, then runs the post-plan and rewinds."""

from __future__ import annotations

from bluesky.utils import RunEngineInterrupted

from vf import sweepcheck
from vf.oracles.common import landing_info, outcome_class, spec_json
from vf.oracles.replay import run_automaton
from vf.sweep import execute, reference_coords
from vf.worker import R

PROPERTY = "C11"
LEVEL = "exploration"
RULE = ("case = one execution of a corpus plan with a suspension (no helper plans / iterable pre+post plans / callable "
        "pre+post plans, release after 0.3 virtual s; thorough: a second, overlapping suspension) landing after EVERY loop "
        "handle, with record_interruptions on; for each accepted suspension: between _start_suspender and the release only "
        "the suspender's helper messages are processed (rewindable, the pre-plan's own message objects, wait_for), every "
        "device that had been set is told to stop before the wait, the first message after the wait comes at virtual time "
        ">= release and is the resume step followed by the post-plan, the rewindable restore and then the replay, no public "
        "call returns inside the interval, and the justification is recorded; plus two-call histories where the request "
        "lands at the very end of a call; distinct = (plan, command at landing, helper-plan shape, overlap, outcome); "
        "non-trivial = the suspension was accepted while a plan message was outstanding")
ASSUMPTIONS = ["release times are virtual-time timers on the loop", "the replay part is judged by the C04 automaton"]
REQUIRED_COUNTERS = {"executions": 500, "suspensions_judged": 400, "with_pre_post": 150, "stops_checked": 150,
                     "justifications_checked": 100, "two_call_histories": 10, "rewindable_flag_checks": 300, "same_turn_pairs": 10}
MANIFEST = {
    "technique": "ordering oracle over the merged message / ledger / virtual-time log for every accepted suspension, on an "
                 "exhaustive suspension-coordinate sweep (single, overlapping, with helper plans, across call boundaries)",
    "category": "exploration",
    "text": "Suspensions are requested after every loop handle; the interval between suspension start and release, the "
            "device stops, the post-plan/rewind order and the absence of caller-visible returns are checked on the log.",
    "note": "Corpus plans x all coordinates; requests go through RunEngine.request_suspend (suspender classes: C30/C31).",
    "design_ref": "3 (C11)",
}
PLANS_Q = ["scan", "custom", "norun", "two_runs", "mixed"]
PLANS_T = PLANS_Q + ["grid", "nested", "count", "neverclose", "fly"]
SHARD_TIMEOUT = {"quick": 900, "thorough": 3600}
worker_init = sweepcheck.worker_init


def _mk(tag):
    from bluesky.utils import Msg

    return [Msg("null", None, tag + "1"), Msg("null", None, tag + "2")]


PRE_IT, POST_IT = None, None


def params_for(kind):
    from bluesky.utils import Msg

    if kind == "suspend":
        return {"justification": None}
    if kind == "suspend-pp":
        pre, post = _mk("pre"), _mk("post")
        return {"pre_plan": pre, "post_plan": post, "justification": "beam dump", "_pre": pre, "_post": post}
    pre, post = _mk("pre"), _mk("post")
    return {"pre_plan": lambda: iter(pre), "post_plan": lambda: iter(post), "justification": "callable", "_pre": pre,
            "_post": post}


def gen_cases(tier, seed):
    cases = sweepcheck.gen_cases(tier, seed, PLANS_Q, PLANS_T, ["suspend", "suspend-pp", "suspend-call"],
                                 spec_extra={"record_interruptions": True},
                                 pairs=[("suspend", "suspend"), ("suspend-pp", "suspend"), ("suspend", "suspend-pp")])
    if tier == "quick":   # a few overlapping pairs also on every change
        for p_ in PLANS_Q[:3]:
            for (k1, k2) in [("suspend", "suspend"), ("suspend-pp", "suspend")]:
                cases.append({"plan": p_, "kind": k1, "kind2": k2, "pairs": 10, "seed": seed,
                              "spec_extra": {"record_interruptions": True}})
    # two suspension requests in ONE event-loop turn (two suspenders tripping on the same upstream event)
    for p_ in (PLANS_Q[:3] if tier == "quick" else PLANS_T):
        cases.append({"plan": p_, "kind": "suspend", "kind2": "suspend-pp", "pairs": 10 if tier == "quick" else 30, "seed": seed,
                      "same_turn": True, "spec_extra": {"record_interruptions": True}})
    for first in ("clearcp", "scan", "norun"):
        cases.append({"two_call": first, "then": "scan", "seed": seed})
    return cases


def judge(ex, ref, case):
    li = landing_info(ex, len(ref.h.msgs()))
    key0 = f"{ex.spec['plan']}|" + ("+".join(f"{x['kind']}@{x['command']}" for x in li) or "none")
    if ex.timeout or ex.stuck:
        return [R("inconclusive", key0, detail="engine did not come back (judged by C07)")]
    if not li:
        return [R("skip", key0, False)]
    log, stamps = ex.log, ex.log.stamps
    problems = []
    counters = {"executions": 1, "suspensions_judged": 0, "with_pre_post": 0, "stops_checked": 0,
                "justifications_checked": 0, "two_call_histories": int(bool(ex.spec.get("then")))}
    starts = [i for i, e in enumerate(log) if e[0] == "msg" and e[1].command == "_start_suspender"]
    params = ex.spec.get("_params", {})
    # overlapping suspensions (a second one starts before the first is released): the exact interleaving of the two
    # helper plans is not documented, so only the hold itself is judged: from the first suspension start until the last
    # release nothing but helper messages may be processed
    def _rel_of(i0):
        ev0 = getattr(log[i0][1].args[3], "__self__", None)
        return next((i for i in range(len(log)) if log[i][0] == "release" and log[i][3] is ev0), None)

    def _helper_end(i0):
        r = next((i for i in range(i0, len(log)) if log[i][0] == "msg" and log[i][1].command == "_resume_from_suspender"), None)
        if r is None:
            return len(log)
        return next((i for i in range(r, len(log)) if log[i][0] == "msg" and log[i][1].command == "rewindable"), len(log))

    overlapping = len(starts) > 1 and any(_helper_end(starts[k - 1]) >= starts[k] for k in range(1, len(starts)))
    if overlapping:
        counters["suspensions_judged"] += len(starts)
        rels = [r for r in (_rel_of(s0) for s0 in starts) if r is not None]
        hi = max(rels) if len(rels) == len(starts) else None
        if hi is not None:
            bad = [e[1] for e in log[starts[0]:hi] if e[0] == "msg" and e[1].command not in
                   ("rewindable", "_start_suspender", "wait_for", "_resume_from_suspender")
                   and not (e[1].command == "null" and e[1].args and str(e[1].args[0])[:3] in ("pre", "pos"))]
            if bad and not any(e[0] == "state" and e[1] in ("aborting", "stopping", "halting") for e in log[starts[0]:hi]):
                problems.append(("plan-message-during-overlapping-suspensions",
                                 f"{[b.command for b in bad][:5]} processed while a suspension was still in effect"))
        starts_to_judge = []
    else:
        starts_to_judge = starts
    for si, s0 in enumerate(starts_to_judge):
        m = log[s0][1]
        pre_plan, post_plan, justification, fut = m.args
        counters["suspensions_judged"] += 1
        # device stops between start and wait_for
        wf = next((i for i in range(s0 + 1, len(log)) if log[i][0] == "msg" and log[i][1].command == "wait_for"), None)
        if wf is None:
            # the call ended before the wait (e.g. aborted): nothing more to order
            continue
        call0 = max([i for i in range(s0) if log[i][0] == "call" and log[i][1] in ("RE", "RE2", "probe", "resume")] or [0])
        call0 = max([i for i in range(s0) if log[i][0] == "call" and log[i][1] in ("RE", "RE2", "probe")] or [0])
        moved = {e[1] for e in log[call0:s0] if e[0] == "dev" and e[2] == "set"}
        stopped = {e[1] for e in log[s0:wf] if e[0] == "dev" and e[2] == "stop"}
        counters["stops_checked"] += int(bool(moved))
        if moved - stopped:
            problems.append(("moved-device-not-stopped-at-suspension", f"{sorted(moved - stopped)} not stopped between suspension start and wait"))
        # helper messages only
        between = [e[1] for e in log[s0 + 1:wf] if e[0] == "msg"]
        if not between or between[0].command != "rewindable" or between[0].args[0] is not False:
            problems.append(("helper-does-not-start-non-rewindable", f"first message after suspension start: {between[:1]}"))
        extra = [x for x in between[1:] if x.command not in ("_start_suspender",)]
        pre_expected = params.get(si, {}).get("_pre") if isinstance(params, dict) else None
        if pre_plan is not None:
            counters["with_pre_post"] += 1
            # pre-plan messages: exactly the objects of the iterable pre-plan (when given as an iterable)
            if isinstance(pre_plan, list) and [id(x) for x in extra] != [id(x) for x in pre_plan]:
                problems.append(("pre-plan-not-run-exactly", f"between start and wait: {[x.command + str(x.args) for x in extra]}"))
            elif not isinstance(pre_plan, list) and [x.args for x in extra] != [("pre1",), ("pre2",)]:
                problems.append(("pre-plan-not-run-exactly", f"between start and wait: {[x.command + str(x.args) for x in extra]}"))
        elif extra:
            problems.append(("plan-message-during-suspension", f"{[x.command for x in extra][:4]} processed before the wait"))
        # release: first message after wait_for
        ev = getattr(fut, "__self__", None)
        rel = next((i for i in range(len(log)) if log[i][0] == "release" and log[i][3] is ev), None)
        if rel is not None and rel < wf:
            continue  # released before the wait began: nothing is held
        nxt = next((i for i in range(wf + 1, len(log)) if log[i][0] == "msg"), None)
        if nxt is not None and log[nxt][1].command == "_start_suspender":
            continue  # overlapping suspension: the outer wait is re-issued by the rewind; judged at its own start
        if nxt is not None:
            if rel is None or nxt < rel:
                if not any(e[0] == "state" and e[1] in ("aborting", "stopping", "halting") for e in log[wf:nxt]):
                    problems.append(("plan-continued-before-release", f"{log[nxt][1].command} processed before the release"))
            else:
                if log[nxt][1].command != "_resume_from_suspender":
                    problems.append(("first-message-after-release-is-not-the-resume-step", log[nxt][1].command))
                after = [e[1] for e in log[nxt + 1:] if e[0] == "msg"]
                if post_plan is not None:
                    got = after[:2]
                    if isinstance(post_plan, list):
                        if [id(x) for x in got] != [id(x) for x in post_plan]:
                            problems.append(("post-plan-not-run-after-release", f"{[x.command + str(x.args) for x in got]}"))
                    elif [x.args for x in got] != [("post1",), ("post2",)]:
                        problems.append(("post-plan-not-run-after-release", f"{[x.command + str(x.args) for x in got]}"))
                    after = after[2:]
                if not after or after[0].command != "rewindable":
                    problems.append(("rewindable-not-restored-after-post-plan", f"{[x.command for x in after[:2]]}"))
            # no public-call return inside [s0, release]
            hi = rel if rel is not None else nxt
            inside = [e for e in log[s0:hi] if e[0] in ("ret", "exc") and e[1] in ("RE", "resume", "RE2")]
            if inside and not any(e[0] == "state" and e[1] in ("aborting", "stopping", "halting", "pausing") for e in log[s0:hi]):
                problems.append(("control-returned-to-caller-during-suspension", f"{inside[0][:2]}"))
        # justification recorded
        if justification is not None and ex.spec.get("record_interruptions"):
            open_runs = 0
            for e in log[:s0]:
                if e[0] == "doc" and e[1] == "start":
                    open_runs += 1
                elif e[0] == "doc" and e[1] == "stop":
                    open_runs -= 1
            if open_runs > 0:
                counters["justifications_checked"] += 1
                rec = [e[2]["data"].get("interruption") for e in log[s0:wf] if e[0] == "doc" and e[1] == "event"
                       and "interruption" in e[2]["data"]]
                if rec.count(justification) != open_runs:
                    problems.append(("justification-not-recorded", f"records {rec} for {open_runs} open run(s)"))
    # two requests made in the same event-loop turn while the plan runs: both must be served (each gets its helper plan)
    if case.get("same_turn") and len(li) == 2 and all(x["state"] == "running" and x["region"] == "body" for x in li):
        counters["same_turn_pairs"] = 1
        aborted = any(e[0] == "state" and e[1] in ("aborting", "stopping", "halting") for e in log)
        if len(starts) < 2 and not aborted:
            problems.append(("suspension-request-lost:same-turn", f"2 requests landed at {li[0]['coord']}, {len(starts)} suspension(s) served"))
    aprob, _ = run_automaton(log)
    # when everything is over the engine's rewindable flag is what the same plan leaves without any suspension
    # (a suspension switches rewinding off while it is in effect and must restore it, also when suspensions overlap)
    ra, rr = getattr(ex, "rewindable_after", None), getattr(ref, "rewindable_after", None)
    if ra is not None and rr is not None and not ex.forced_cleanup and ex.final_state == "idle" and not ex.spec.get("then"):
        counters["rewindable_flag_checks"] = 1
        if ra != rr and not any(e[0] == "state" and e[1] in ("aborting", "stopping", "halting") for e in log):
            problems.append(("rewindable-flag-not-restored" + (":overlapping" if overlapping else ""),
                             f"RE.rewindable is {ra} after the call, {rr} after the same plan without suspensions"))
    if ex.spec.get("then"):
        r2 = dict(ex.calls).get("RE2")
        if r2 is not None and r2[0] == "exc":
            problems.append((f"next-call-ended-with-{type(r2[1]).__name__}",
                             f"a suspension requested at the end of the previous call made the next call end with {r2[1]!r}"))
    key = f"{key0}|n={len(starts)}|{outcome_class(ex)}"
    if problems:
        out, seen = [], set()
        for kd, detail in problems:
            sig = f"C11:{kd}"
            if sig in seen:
                continue
            seen.add(sig)
            out.append(R("violated", key + "|" + kd, True, sig=sig, detail=f"{key}: {detail}",
                         witness={"spec": spec_json(ex.spec), "landing": li, "calls": outcome_class(ex),
                                  "messages": [(stamps[i][0], e[1].command, str(e[1].args)[:30]) for i, e in enumerate(log)
                                               if e[0] == "msg"][-40:]},
                         counters=counters, case={"replay_spec": spec_json(ex.spec)}))
            counters = {}
        return out
    return [R("held" if starts else "skip", key, bool(starts), counters=counters,
              sample={"plan": ex.spec["plan"], "inj": [i[:3] for i in ex.spec.get("inj", [])], "suspensions": len(starts),
                      "calls": outcome_class(ex),
                      "around": [(round(stamps[i][0], 3), e[1].command) for i, e in enumerate(log) if e[0] == "msg"
                                 and starts and starts[0] - 3 <= i <= starts[0] + 14]} if len(starts) == 1 and li[0]["kind"] != "suspend" else None)]


def run_case(case):
    if "two_call" in case:
        out = []
        ref, coords = reference_coords({"plan": case["two_call"]})
        nm = len(ref.h.msgs())
        tail = [c for c in coords if c[0] >= nm - 1]
        reps = 25 if case["two_call"] == "clearcp" else 2
        for c in tail * reps:
            ex = execute({"plan": case["two_call"], "inj": [[c[0], c[1], "suspend", {"justification": "late"}]],
                          "decisions": [], "then": case["then"], "record_interruptions": True})
            out += judge(ex, ref, case)
        return out
    if "replay_spec" in case:
        spec = dict(case["replay_spec"])
        for inj in spec.get("inj", []):
            if len(inj) > 3 and isinstance(inj[3], dict) and inj[2] != "suspend":
                inj[3] = params_for(inj[2])
        ref, _ = reference_coords(dict(spec, inj=[], decisions=[], then=None))
        return judge(execute(spec), ref, case)
    return sweepcheck.run_case(case, judge, decisions=(), first_decisions=("resume", "resume"),
                               inj_params={"suspend": params_for("suspend"), "suspend-pp": params_for("suspend-pp"),
                                           "suspend-call": params_for("suspend-call")})
