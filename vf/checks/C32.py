"""C32 — the plan simulator replays plans faithfully."""

from __future__ import annotations

import warnings

from vf.common import rng_for
from vf.worker import R

PROPERTY = "C32"
LEVEL = "exploration"
RULE = ("two case families. (a) RunEngineSimulator.simulate_plan on a seeded plan program (2..14 messages over commands "
        "{null, read, set, trigger, wait, open_run, sleep} on named fake objects, logging what every yield receives and "
        "returning a value) with a seeded handler set (0..10 handlers: command lists, msg_filter None / object name / "
        "predicate, results incl. falsy 0, '', False, [], None, index 0 or 'end'); oracle: returned list is exactly the "
        "yielded Msg objects in order, each yield received the result of the highest-priority matching handler (newest "
        "first, 'end' ones last) else None, return_value is the plan's return value. (b) check_limits / check_limits_async "
        "on seeded message lists with limit-checked and unchecked fakes: raises iff some 'set' on a Checkable targets a "
        "value outside its limits; distinct = (plan shape, handler-set shape) / (limits, targets pattern)")
ASSUMPTIONS = ["handlers are pure functions of the message", "plans do not raise"]
REQUIRED_COUNTERS = {"plans_simulated": 800, "responses_checked": 4000, "falsy_results_checked": 200,
                     "overridden_handlers": 200, "limit_cases": 300, "limit_violations_expected": 80}
MANIFEST = {
    "technique": "reference-model differential (handler priority list, limits predicate) against the real "
                 "RunEngineSimulator / check_limits on seeded plans, handler sets and set targets",
    "category": "exploration",
    "text": "Seeded plans and handler sets are run through the real simulator; messages (identity), every delivered "
            "response and the return value are compared with a priority-list model; check_limits is compared with an "
            "independent limits predicate through both the sync and async entry points.",
    "note": "Sampled inputs; model ~20 lines.",
    "design_ref": "5 (C32)",
}

_RE = None


def _engine():
    global _RE
    if _RE is None:
        from bluesky import RunEngine

        _RE = RunEngine({}, context_managers=[])
    return _RE


class Obj:
    def __init__(self, name):
        self.name = name
        self.parent = None

    def __repr__(self):
        return f"<{self.name}>"


class Limited(Obj):
    def __init__(self, name, lo, hi, is_async=False):
        super().__init__(name)
        self.lo, self.hi = lo, hi
        self.calls = []
        if is_async:
            async def check_value(value):
                self.calls.append(value)
                if not (self.lo <= value <= self.hi):
                    raise ValueError(f"{value} outside [{self.lo}, {self.hi}]")
            self.check_value = check_value

    def check_value(self, value):
        self.calls.append(value)
        if not (self.lo <= value <= self.hi):
            raise ValueError(f"{value} outside [{self.lo}, {self.hi}]")

    def set(self, value):
        raise NotImplementedError


def gen_cases(tier, seed):
    n = 1200 if tier == "quick" else 20000
    return [{"kind": "sim", "start": s, "count": 60, "seed": seed} for s in range(0, n, 60)] + \
           [{"kind": "limits", "start": s, "count": 40, "seed": seed} for s in range(0, n // 3, 40)]


RESULTS = [0, "", False, [], None, 1, "x", {"a": 1}, (), 0.0, [1, 2], True]


def run_case(case):
    from bluesky.simulators import RunEngineSimulator, check_limits, check_limits_async
    from bluesky.utils import Msg

    out = []
    if case["kind"] == "sim":
        objs = [Obj("alpha"), Obj("beta"), Obj("gamma")]
        for i in range(case["start"], case["start"] + case["count"]):
            rng = rng_for(case["seed"], "C32a", i)
            sub = {"kind": "sim", "start": i, "count": 1, "seed": case["seed"]}
            n = rng.randint(2, 14)
            script = []
            for k in range(n):
                cmd = rng.choice(["null", "read", "set", "trigger", "wait", "open_run", "sleep", "stage", "unstage",
                                  "checkpoint", "clear_checkpoint", "monitor", "unmonitor"])
                obj = rng.choice(objs) if cmd in ("read", "set", "trigger", "stage", "unstage", "monitor", "unmonitor") else None
                kwargs = {"group": rng.choice(["g1", "g2"])} if cmd in ("wait", "set") else {}
                script.append((cmd, obj, k, kwargs))
            recv = []
            yielded = []
            ret_val = ("ret", rng.randint(0, 99)) if rng.random() < 0.8 else None

            def plan():
                for cmd, obj, k, kw in script:
                    m = Msg(cmd, obj, k, **kw)
                    yielded.append(m)
                    r = yield m
                    recv.append(r)
                return ret_val

            sim = RunEngineSimulator()
            model = []   # ordered priority list of (commands, filter kind, filter arg, result)
            nh = rng.randint(0, 10)
            for h in range(nh):
                cmds = rng.choice([["read"], ["set"], ["null", "wait"], ["trigger", "read", "set"], "read", "wait", ["open_run"],
                                   # plain strings that CONTAIN another command's name
                                   "unstage", "clear_checkpoint", "unmonitor", ["stage"], ["monitor", "checkpoint"]])
                fk = rng.choice(["none", "name", "pred"])
                res = RESULTS[rng.randrange(len(RESULTS))]
                res = (res, h) if rng.random() < 0.3 else res
                if fk == "none":
                    flt, farg = None, None
                elif fk == "name":
                    farg = rng.choice(["alpha", "beta", "gamma"])
                    flt = farg
                else:
                    farg = rng.randint(0, 2)
                    flt = (lambda a: (lambda msg: msg.args[0] % 3 == a))(farg)
                idx = rng.choice([0, 0, 0, "end"])
                sim.add_handler(cmds, (lambda r: (lambda msg: r))(res), flt, index=idx)
                entry = ([cmds] if isinstance(cmds, str) else list(cmds), fk, farg, res)
                if idx == 0:
                    model.insert(0, entry)
                else:
                    model.append(entry)

            def expected(m):
                for cmds, fk, farg, res in model:
                    if m.command not in cmds:
                        continue
                    if fk == "none" or (fk == "name" and m.obj is not None and m.obj.name == farg) or \
                            (fk == "pred" and m.args[0] % 3 == farg):
                        return True, res
                return False, None

            counters = {"plans_simulated": 1, "responses_checked": 0, "falsy_results_checked": 0, "overridden_handlers": 0}
            problems = []
            try:
                msgs = sim.simulate_plan(plan())
            except Exception as e:  # noqa: BLE001
                problems.append((f"raises:{type(e).__name__}", repr(e)))
                msgs = []
            if not problems:
                if len(msgs) != len(yielded) or any(a is not b for a, b in zip(msgs, yielded)):
                    problems.append(("messages-differ", f"{len(msgs)} returned, {len(yielded)} yielded"))
                if len(yielded) != n:
                    problems.append(("plan-not-run-to-completion", f"{len(yielded)}/{n} messages"))
                for k, m in enumerate(yielded[:len(recv)]):
                    matched, exp = expected(m)
                    counters["responses_checked"] += 1
                    if matched and not exp:
                        counters["falsy_results_checked"] += 1
                    nmatch = sum(1 for cmds, fk, farg, res in model if m.command in cmds and
                                 (fk == "none" or (fk == "name" and m.obj is not None and m.obj.name == farg) or
                                  (fk == "pred" and m.args[0] % 3 == farg)))
                    if nmatch > 1:
                        counters["overridden_handlers"] += 1
                    got = recv[k]
                    if not (got == exp and type(got) is type(exp)):
                        why = "falsy-result-dropped" if matched and not exp and got is None else \
                            ("wrong-handler-priority" if nmatch > 1 else "wrong-response")
                        problems.append((why, f"message {k} {m.command}: received {got!r}, expected {exp!r}"))
                        break
                if sim.return_value != ret_val:
                    problems.append(("return_value-wrong", f"{sim.return_value!r} vs {ret_val!r}"))
            key = f"sim|n<={[4, 8, 14][(n > 4) + (n > 8)]}|handlers={nh}|filters={sorted({e[1] for e in model})}"
            if problems:
                kd, detail = problems[0]
                out.append(R("violated", key, True, sig=f"C32:simulate_plan:{kd}", detail=f"{key}: {detail}",
                             witness={"script": [(c, getattr(o, "name", None), k) for c, o, k, _ in script],
                                      "handlers": [(e[0], e[1], e[2], repr(e[3])) for e in model]}, counters=counters, case=sub))
            else:
                out.append(R("held", key, nh > 0, counters=counters,
                             sample={"script": [(c, getattr(o, "name", None)) for c, o, k, _ in script],
                                     "handlers": [(e[0], e[1], e[2], repr(e[3])) for e in model], "received": [repr(r) for r in recv]}
                             if nh >= 3 and n <= 6 else None))
        return out
    # ---- limits ------------------------------------------------------------------------------------
    RE = _engine()
    import asyncio

    for i in range(case["start"], case["start"] + case["count"]):
        rng = rng_for(case["seed"], "C32b", i)
        sub = {"kind": "limits", "start": i, "count": 1, "seed": case["seed"]}
        lim = [Limited("l1", -1.0, 1.0), Limited("l2", 0, 10, is_async=rng.random() < 0.5)]
        free = [Obj("f1")]
        msgs = []
        bad_expected = None
        for k in range(rng.randint(1, 8)):
            cmd = rng.choice(["set", "set", "set", "read", "trigger", "null"])
            o = rng.choice(lim + free)
            if cmd == "set":
                v = rng.choice([-5, -1.0, 0, 0.5, 1.0, 1.0000001, 10, 11, 100])
                msgs.append(Msg("set", o, v))
                if isinstance(o, Limited) and not (o.lo <= v <= o.hi) and bad_expected is None:
                    bad_expected = (k, o.name, v)
            elif cmd == "null":
                msgs.append(Msg("null"))
            else:
                # a non-set message carrying an out-of-limits looking argument must not be checked
                msgs.append(Msg(cmd, o, 1e9))
        entry = rng.choice(["sync", "async"])
        raised = None
        with warnings.catch_warnings():
            warnings.simplefilter("ignore")
            try:
                if entry == "sync":
                    check_limits(iter(msgs))
                else:
                    asyncio.run_coroutine_threadsafe(check_limits_async(iter(msgs)), RE.loop).result(10)
            except Exception as e:  # noqa: BLE001
                raised = e
        counters = {"limit_cases": 1, "limit_violations_expected": int(bad_expected is not None)}
        key = f"limits|{entry}|bad={bad_expected is not None}|n={len(msgs)}"
        problem = None
        if bad_expected is not None and raised is None:
            problem = ("out-of-limits-set-not-reported", f"set {bad_expected} accepted")
        elif bad_expected is None and raised is not None:
            problem = ("in-limits-plan-rejected", repr(raised))
        if problem:
            out.append(R("violated", key, True, sig=f"C32:check_limits:{problem[0]}:{entry}", detail=f"{key}: {problem[1]}",
                         witness={"msgs": [(m.command, getattr(m.obj, "name", None), m.args) for m in msgs]},
                         counters=counters, case=sub))
        else:
            out.append(R("held", key, True, counters=counters,
                         sample={"msgs": [(m.command, getattr(m.obj, "name", None), m.args) for m in msgs],
                                 "raised": repr(raised)} if bad_expected else None))
    return out
