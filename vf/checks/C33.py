"""C33 — 0MQ publishing delivers documents intact and filters by prefix."""

from __future__ import annotations

import asyncio
import pickle
import threading

from vf.common import jsonable, rng_for
from vf.worker import R

PROPERTY = "C33"
LEVEL = "exploration"
RULE = ("case = one history through an in-memory 0MQ transport injected via the classes' zmq=/zmq_asyncio= parameters: 1-2 "
        "Publishers (prefixes from {empty, ascii, non-UTF-8, long}) send 3..15 seeded (name, document) pairs (numpy arrays, "
        "bytes containing spaces and newlines, nested dicts, unicode) interleaved with malformed frames injected on the bus "
        "(too few fields, undecodable name, unknown document name, broken payload); one RemoteDispatcher (prefix empty or "
        "one of the publishers', strict or not) polls it; oracle: delivered list == sent list filtered by prefix, deep-"
        "equal and in order; malformed frames deliver nothing; non-strict: later frames still arrive; strict: the poll "
        "raises Bluesky0MQDecodeError; distinct = (prefix class, doc classes, malformed kind, strict)")
ASSUMPTIONS = ["the in-memory transport preserves order and never drops (so every loss or reordering is the code's)",
               "an unknown document name is a malformed frame"]
REQUIRED_COUNTERS = {"histories": 200, "documents_sent": 1500, "malformed_frames": 150, "prefix_filtered_histories": 60,
                     "strict_histories": 50}
MANIFEST = {
    "technique": "history oracle (sent vs delivered, deep equality, order, prefix filter) on the real Publisher / "
                 "RemoteDispatcher over an injected in-memory transport with malformed-frame injection",
    "category": "exploration",
    "text": "Seeded document sequences and malformed frames pass through the real publisher and dispatcher code over a "
            "lossless in-memory 0MQ stand-in; what the dispatcher's subscribers receive is compared with what was sent.",
    "note": "The real sockets are replaced (as the constructors allow); serialisation and framing code is real.",
    "design_ref": "7 (C33)",
}
STOP = object()


class Bus:
    def __init__(self):
        self.subs = []   # (loop, queue)

    def publish(self, msg):
        for loop, q in list(self.subs):
            try:
                loop.call_soon_threadsafe(q.put_nowait, msg)
            except RuntimeError:
                pass  # subscriber gone


class FakeZmq:
    PUB, SUB, SUBSCRIBE = 1, 2, 6

    def __init__(self, bus):
        self.bus = bus

    def Context(self):
        return _Ctx(self.bus, False)


class FakeZmqAsyncio:
    def __init__(self, bus):
        self.bus = bus

    def Context(self):
        return _Ctx(self.bus, True)


class _Ctx:
    def __init__(self, bus, is_async):
        self.bus, self.is_async = bus, is_async

    def socket(self, kind):
        return _Sock(self.bus, kind, self.is_async)

    def destroy(self):
        pass


class _Sock:
    def __init__(self, bus, kind, is_async):
        self.bus, self.kind = bus, kind
        self.q = None

    def connect(self, url):
        if self.kind == FakeZmq.SUB:
            self.q = asyncio.Queue()
            self.bus.subs.append((asyncio.get_event_loop(), self.q))

    def setsockopt_string(self, *a):
        pass

    def send(self, msg):
        self.bus.publish(bytes(msg))

    async def recv(self):
        m = await self.q.get()
        if m is STOP:
            raise asyncio.CancelledError()
        return m

    def close(self):
        pass


def gen_cases(tier, seed):
    n = 300 if tier == "quick" else 5000
    return [{"start": s, "count": 15, "seed": seed} for s in range(0, n, 15)]


def rand_doc(rng, k):
    import numpy as np

    c = rng.choice(["plain", "numpy", "bytes", "nested", "unicode"])
    d = {"uid": f"u{k}", "n": k}
    if c == "numpy":
        d["arr"] = np.arange(rng.randint(1, 6), dtype=rng.choice(["<f8", "<i4", "u1"])).reshape(-1)
    elif c == "bytes":
        d["blob"] = b"a b  c\n\x00 d " * rng.randint(1, 3)
    elif c == "nested":
        d["data"] = {"x": [1, 2, {"y": (3, 4)}], "s p a c e": "v a l"}
    elif c == "unicode":
        d["text"] = "sp ace é中\n"
    return c, d


def deep_eq(a, b):
    import numpy as np

    if isinstance(a, np.ndarray) or isinstance(b, np.ndarray):
        return isinstance(a, np.ndarray) and isinstance(b, np.ndarray) and a.dtype == b.dtype and np.array_equal(a, b)
    if isinstance(a, dict):
        return isinstance(b, dict) and a.keys() == b.keys() and all(deep_eq(a[k], b[k]) for k in a)
    if isinstance(a, (list, tuple)):
        return type(a) is type(b) and len(a) == len(b) and all(deep_eq(x, y) for x, y in zip(a, b))
    return a == b and type(a) is type(b)


def run_case(case):
    from bluesky.callbacks.zmq import Bluesky0MQDecodeError, Publisher, RemoteDispatcher

    out = []
    NAMES = ["start", "descriptor", "event", "stop", "event_page", "resource", "datum"]
    PREFIXES = [b"", b"abc", b"\xff\x00x", b"p" * 40, b"abcd"]
    for i in range(case["start"], case["start"] + case["count"]):
        rng = rng_for(case["seed"], "C33", i)
        sub = {"start": i, "count": 1, "seed": case["seed"]}
        bus = Bus()
        fz, fza = FakeZmq(bus), FakeZmqAsyncio(bus)
        npub = rng.choice([1, 2])
        pub_prefixes = rng.sample(PREFIXES, npub)
        strict = rng.random() < 0.25
        dprefix = rng.choice([b""] + pub_prefixes)
        loop = asyncio.new_event_loop()
        d = RemoteDispatcher(("127.0.0.1", 5568), prefix=dprefix, loop=loop, zmq=fz, zmq_asyncio=fza, strict=strict)
        got = []
        d.subscribe(lambda name, doc: got.append((name, doc)))
        started = threading.Event()
        result = {}

        def runner():
            try:
                loop.call_soon(started.set)
                d.start()
            except BaseException as e:  # noqa: BLE001
                result["exc"] = e

        th = threading.Thread(target=runner, daemon=True)
        th.start()
        started.wait(5)
        import time

        t0 = time.time()
        while not bus.subs and time.time() - t0 < 5:
            time.sleep(0.001)
        pubs = [Publisher(("127.0.0.1", 5567), prefix=p, zmq=fz) for p in pub_prefixes]
        sent = []   # (prefix, name, doc, doc class)
        malformed = []
        nmsg = rng.randint(3, 15)
        mal_kinds = []
        first_mal_at = None
        for k in range(nmsg):
            if rng.random() < 0.2:
                kind = rng.choice(["too-few-fields", "undecodable-name", "unknown-name", "broken-payload"])
                p = rng.choice(pub_prefixes)
                if p == b"" and kind == "too-few-fields":
                    kind = "unknown-name"
                frame = {"too-few-fields": p + b"nospaceatall" if p else b"x",
                         "undecodable-name": p + b" \xff\xfe\xfd " + pickle.dumps({"a": 1}),
                         "unknown-name": p + b" bogus " + pickle.dumps({"a": 1}),
                         "broken-payload": p + b" start " + b"\x80notapickle"}[kind]
                if kind == "too-few-fields":
                    frame = b"nospaceatall"
                bus.publish(frame)
                # does the dispatcher look at this frame at all? (a foreign prefix is skipped before the payload is touched)
                relevant = kind in ("too-few-fields", "undecodable-name") or dprefix == b"" or p == dprefix
                mal_kinds.append((kind, relevant))
                if relevant and first_mal_at is None:
                    first_mal_at = len(sent)
            else:
                pi = rng.randrange(npub)
                name = rng.choice(NAMES)
                cls, doc = rand_doc(rng, k)
                pubs[pi](name, doc)
                sent.append((pub_prefixes[pi], name, doc, cls))
        # flush: wait until the dispatcher has drained, then stop it
        deadline = time.time() + 5
        while time.time() < deadline and th.is_alive():
            if all(q.empty() for _, q in bus.subs):
                time.sleep(0.02)
                if all(q.empty() for _, q in bus.subs):
                    break
            time.sleep(0.002)
        for lp, q in bus.subs:
            try:
                lp.call_soon_threadsafe(q.put_nowait, STOP)
            except RuntimeError:
                pass  # the dispatcher already stopped and closed its loop (strict mode / a dead poll)
        th.join(5)
        for p in pubs:
            p.close()
        try:
            loop.close()
        except Exception:  # noqa: BLE001
            pass
        exp_all = [(n, dd) for (p, n, dd, c) in sent if dprefix == b"" or p == dprefix]
        relevant_mal = [k for k, rel in mal_kinds if rel]
        counters = {"histories": 1, "documents_sent": len(sent), "malformed_frames": len(mal_kinds),
                    "prefix_filtered_histories": int(dprefix != b"" and npub == 2), "strict_histories": int(strict)}
        problems = []
        exc = result.get("exc")
        if strict and relevant_mal:
            # everything sent before the first relevant malformed frame must have arrived; the poll must raise
            exp = [(n, dd) for (p, n, dd, c) in sent[:first_mal_at] if dprefix == b"" or p == dprefix]
            if not isinstance(exc, Bluesky0MQDecodeError):
                problems.append((f"strict-mode-did-not-raise:{relevant_mal[0]}", f"poll ended with {exc!r}"))
            if [n for n, _ in got[:len(exp)]] != [n for n, _ in exp] or len(got) > len(exp):
                problems.append(("strict-mode-delivery-differs", f"got {len(got)} docs, expected the {len(exp)} before the bad frame"))
        else:
            if exc is not None and not isinstance(exc, asyncio.CancelledError):
                kind = relevant_mal[0] if relevant_mal else "none"
                problems.append((f"poll-died:{type(exc).__name__}:malformed={kind}", f"{exc!r}; delivered {len(got)}/{len(exp_all)}"))
            if len(got) != len(exp_all):
                kind = relevant_mal[0] if relevant_mal else "none"
                what = "lost" if len(got) < len(exp_all) else "extra"
                problems.append((f"documents-{what}:malformed={kind}:prefix={'set' if dprefix else 'empty'}",
                                 f"delivered {len(got)}, expected {len(exp_all)} (sent {len(sent)}, dispatcher prefix {dprefix!r})"))
            else:
                for (gn, gd), (en, ed) in zip(got, exp_all):
                    if gn != en:
                        problems.append(("order-or-name-differs", f"{gn} vs {en}"))
                        break
                    if not deep_eq(gd, ed):
                        problems.append(("document-content-changed", f"{jsonable(gd)} vs {jsonable(ed)}"))
                        break
        pcls = "empty" if dprefix == b"" else ("nonutf8" if b"\xff" in dprefix else "ascii")
        key = f"pubs={npub}|dprefix={pcls}|strict={strict}|mal={sorted(set(k for k, _ in mal_kinds))}|classes={sorted({c for *_, c in sent})}"
        if problems:
            kd, detail = problems[0]
            out.append(R("violated", key, True, sig=f"C33:{kd}", detail=f"{key}: {detail}",
                         witness={"publisher_prefixes": [repr(p) for p in pub_prefixes], "dispatcher_prefix": repr(dprefix),
                                  "strict": strict, "malformed": mal_kinds, "sent": [(repr(p), n, c) for p, n, _, c in sent]},
                         counters=counters, case=sub))
        else:
            out.append(R("held", key, len(sent) >= 2, counters=counters,
                         sample={"publisher_prefixes": [repr(p) for p in pub_prefixes], "dispatcher_prefix": repr(dprefix),
                                 "strict": strict, "malformed": mal_kinds, "sent": len(sent), "delivered": len(got)}
                         if mal_kinds and npub == 2 else None))
    return out
