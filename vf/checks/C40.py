"""C40 — interruption records are complete and uniquely numbered."""

from __future__ import annotations

from vf import sweepcheck
from vf.oracles.common import landing_info, outcome_class, spec_json
from vf.worker import R

PROPERTY = "C40"
LEVEL = "exploration"
RULE = ("case = one execution with record_interruptions on (and, as control, off) of a corpus plan with 1-2 pauses / deferred "
        "pauses / suspensions (with justification) landing after EVERY loop handle, each pause resumed; for every run: one "
        "'interruptions' event per accepted pause, per suspension start and per resume that happened while that run was "
        "open, with the expected content, seq_nums 1..M pairwise distinct and RunStop num_events['interruptions'] == M; "
        "recording off => no 'interruptions' descriptor; distinct = (plan, kinds, checkpoints between the interruptions, "
        "#records); non-trivial = >=2 records in one run")
ASSUMPTIONS = ["which interruptions happened while a run was open is read from the ordered log (state -> pausing, "
               "_start_suspender message, resume() call between that run's start and stop documents)"]
REQUIRED_COUNTERS = {"executions": 400, "records_expected": 800, "runs_with_two_or_more_records": 200,
                     "recording_off_executions": 50}
MANIFEST = {
    "technique": "log-vs-document oracle: expected interruption records derived from the state/message/call log compared "
                 "with the events of each run's 'interruptions' stream, over a pause/suspend coordinate sweep",
    "category": "exploration",
    "text": "Pauses and suspensions land after every loop handle (singly and in pairs) with recording on; the records of "
            "each run are matched one-to-one against the interruptions that happened while it was open.",
    "note": "Corpus plans x all coordinates.",
    "design_ref": "3 (C40)",
}
PLANS_Q = ["scan", "nested", "two_runs", "custom"]
PLANS_T = PLANS_Q + ["count", "grid", "mixed", "neverclose", "keys_b"]
SHARD_TIMEOUT = {"quick": 900, "thorough": 3600}
worker_init = sweepcheck.worker_init


def gen_cases(tier, seed):
    cases = sweepcheck.gen_cases(tier, seed, PLANS_Q, PLANS_T, ["pause", "suspend-j", "defer"],
                                 spec_extra={"record_interruptions": True})
    # pairs also in the quick tier: "checkpoints between interruptions" is the interesting dimension
    for p in (PLANS_Q if tier == "quick" else PLANS_T):
        for k1, k2 in (("pause", "pause"), ("pause", "suspend-j"), ("suspend-j", "pause"), ("suspend-j", "suspend-j")):
            cases.append({"plan": p, "kind": k1, "kind2": k2, "pairs": 12 if tier == "quick" else 40, "seed": seed,
                          "spec_extra": {"record_interruptions": True}})
        cases.append({"plan": p, "kind": "pause", "slice": [0, 4], "seed": seed, "spec_extra": {"record_interruptions": False}})
    return cases


def judge(ex, ref, case):
    li = landing_info(ex, len(ref.h.msgs()))
    key0 = f"{ex.spec['plan']}|" + ("+".join(f"{x['kind']}@{x['command']}" for x in li) or "none")
    if ex.timeout or ex.stuck or ex.final_state != "idle":
        return [R("inconclusive", key0, detail="engine did not come back idle (judged by C07)")]
    if not li:
        return [R("skip", key0, False)]
    log = ex.log
    recording = bool(ex.spec.get("record_interruptions"))
    end = next((i for i, e in enumerate(log) if (e[0] == "call" and e[1] == "probe") or e[0] == "harness"), len(log))
    open_runs = []             # uids currently open
    expected = {}              # uid -> list of expected contents
    got = {}                   # uid -> list of (seq_num, content)
    desc = {}                  # interruptions descriptor uid -> run
    stops = {}
    problems = []
    checkpoints_between = 0
    seen_first = False
    for i, e in enumerate(log[:end]):
        if e[0] == "doc":
            n, d = e[1], e[2]
            if n == "start":
                open_runs.append(d["uid"])
                expected[d["uid"]] = []
                got[d["uid"]] = []
            elif n == "stop":
                if d["run_start"] in open_runs:
                    open_runs.remove(d["run_start"])
                stops[d["run_start"]] = d
            elif n == "descriptor" and d.get("name") == "interruptions":
                desc[d["uid"]] = d["run_start"]
            elif n == "event" and d["descriptor"] in desc:
                got[desc[d["descriptor"]]].append((d["seq_num"], d["data"].get("interruption")))
        elif e[0] == "state" and e[1] == "pausing" and e[2] != "pausing":
            for u in open_runs:
                expected[u].append("pause")
            seen_first = True
        elif e[0] == "call" and e[1] == "resume":
            for u in open_runs:
                expected[u].append("resume")
        elif e[0] == "msg" and e[1].command == "_start_suspender":
            j = e[1].args[2]
            for u in open_runs:
                expected[u].append(j if j is not None else "suspended")
            seen_first = True
        elif e[0] == "msg" and e[1].command == "checkpoint" and seen_first:
            checkpoints_between += 1
    counters = {"executions": 1, "records_expected": sum(len(v) for v in expected.values()),
                "runs_with_two_or_more_records": sum(1 for v in expected.values() if len(v) >= 2),
                "recording_off_executions": int(not recording)}
    if not recording:
        if desc:
            problems.append(("interruptions-stream-although-recording-off", f"{len(desc)} descriptor(s)"))
    else:
        for u, exp in expected.items():
            g = got.get(u, [])
            seqs = [s for s, _ in g]
            conts = [c for _, c in g]
            if conts != exp:
                kind = "record-missing" if len(conts) < len(exp) else ("record-extra" if len(conts) > len(exp) else "record-content")
                problems.append((kind, f"run {u[:8]}: records {conts} expected {exp}"))
            if sorted(seqs) != list(range(1, len(seqs) + 1)):
                problems.append(("seq_nums-not-1..M", f"run {u[:8]}: seq_nums {seqs}"))
            st = stops.get(u)
            if st is not None and (exp or g):
                n = st.get("num_events", {}).get("interruptions", 0)
                if n != len(g):
                    problems.append(("num_events-does-not-count-records", f"run {u[:8]}: num_events['interruptions']={n}, {len(g)} records emitted"))
    nrec = max([len(v) for v in expected.values()] or [0])
    key = f"{key0}|rec={recording}|cp_between={min(checkpoints_between, 3)}|records={nrec}|{outcome_class(ex)}"
    if problems:
        out, seen = [], set()
        for kd, detail in problems:
            sig = f"C40:{kd}:{'+'.join(sorted({x['kind'] for x in li}))}"
            if sig in seen:
                continue
            seen.add(sig)
            out.append(R("violated", key + "|" + kd, True, sig=sig, detail=f"{key}: {detail}",
                         witness={"spec": spec_json(ex.spec), "landing": li, "expected": {k[:8]: v for k, v in expected.items()},
                                  "got": {k[:8]: v for k, v in got.items()}}, counters=counters,
                         case={"replay_spec": spec_json(ex.spec)}))
            counters = {}
        return out
    return [R("held", key, nrec >= 2 or not recording, counters=counters,
              sample={"plan": ex.spec["plan"], "inj": [i[:3] for i in ex.spec.get("inj", [])],
                      "records": {k[:8]: v for k, v in got.items()}} if nrec >= 3 else None)]


def run_case(case):
    return sweepcheck.run_case(case, judge, decisions=(), first_decisions=("resume", "resume", "resume", "resume"),
                               inj_params={"suspend-j": {"justification": "beam dump"}})
