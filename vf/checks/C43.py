"""C43 — PersistentDict keeps what was last written."""

from __future__ import annotations

import gc
import json
import os
import shutil
import subprocess
import sys
import tempfile

from vf.common import jsonable, rng_for
from vf.helpers.pdict_ops import apply, build_value
from vf.worker import R

PROPERTY = "C43"
LEVEL = "fault_enumeration"
RULE = ("case = a seeded history of 3..14 operations (set, del, pop, popitem, update, setdefault, clear, flush, in-place "
        "mutation followed by flush, reload) on one PersistentDict over msgpack-able values (ints, floats, str, bytes, None, "
        "bool, nested lists/dicts, tuples, numpy arrays and scalars) with filename-safe keys, then a reopen on the same "
        "directory (a) after dropping the instance (del + gc.collect) and (b) after a CRASH: the history prefix is "
        "executed in a subprocess that ends with os._exit, so no finalizer runs, at every prefix (quick tier: in a subprocess for one prefix of every 4th history and emulated by detaching the finalizer elsewhere; thorough: always a subprocess); oracle: the reopened mapping equals a dict model of what was last set/deleted/popped/flushed, after an "
        "independent msgpack round-trip of the model's values; distinct = (operation-sequence shape, value type classes, "
        "reopen kind)")
ASSUMPTIONS = ["one instance at a time", "in-place mutation is only generated together with a following flush()",
               "keys are short and filename-safe"]
REQUIRED_COUNTERS = {"histories": 100, "graceful_reopens": 100, "crash_reopens": 200, "reload_histories": 20,
                     "values_compared": 500, "subprocess_crashes": 10}
MANIFEST = {
    "technique": "reference-model differential (dict model) on the real PersistentDict with reopen after graceful drop and "
                 "after subprocess crash (os._exit) at enumerated history prefixes",
    "category": "fault_enumeration",
    "text": "Seeded operation histories are applied to the real PersistentDict; the directory is reopened after a graceful "
            "drop and after a crash injected at history prefixes (a subprocess killed with os._exit), and compared with a "
            "dict model of the last written state.",
    "note": "Crash = process death without finalizers; torn writes inside one file write are not modelled.",
    "design_ref": "7 (C43)",
}
KEYS = ["a", "b", "key_3", "Sample-1", "x.y", "k" * 40]


def gen_cases(tier, seed):
    n = 120 if tier == "quick" else 1500
    return [{"start": s, "count": 4, "seed": seed, "tier": tier} for s in range(0, n, 4)]


def rand_spec(rng, depth=0):
    r = rng.random()
    if depth >= 2 or r < 0.5:
        return rng.choice([("int", 5), ("int", -2**40), ("float", 2.5), ("str", "hé llo"), ("bytes", "a\x00b"), ("none",),
                           ("bool", True), ("npscalar", "int64", 7), ("npscalar", "float32", 1.5),
                           ("ndarray", 6, "<f8", [2, 3]), ("ndarray", 3, "<i4", [3])])
    if r < 0.7:
        return ("list", [rand_spec(rng, depth + 1) for _ in range(rng.randint(0, 3))])
    if r < 0.8:
        return ("tuple", [rand_spec(rng, depth + 1) for _ in range(rng.randint(1, 2))])
    return ("dict", [(f"f{j}", rand_spec(rng, depth + 1)) for j in range(rng.randint(0, 3))])


def rand_history(rng):
    ops = []
    n = rng.randint(3, 14)
    with_reload = rng.random() < 0.3
    last = {}   # key -> the value spec it was last set to (for "the same metadata is entered again after a removal")
    while len(ops) < n:
        r = rng.random()
        k = rng.choice(KEYS)
        if ops and ops[-1][0] in ("clear", "popitem", "del", "pop") and last and rng.random() < 0.5:
            for kk in rng.sample(sorted(last), k=min(len(last), rng.randint(1, 3))):
                ops.append(["set", kk, last[kk]])
            continue
        if r < 0.4:
            ops.append(["set", k, rand_spec(rng)])
            last[k] = ops[-1][2]
        elif r < 0.5:
            ops.append(["del", k])
        elif r < 0.57:
            ops.append(["pop", k])
        elif r < 0.62:
            # after a reload() the cache is rebuilt in directory-listing order, so which item popitem() removes differs
            # between two directories (the crash replays run in their own): use a named pop there
            ops.append(["popitem"] if not any(o[0] == "reload" for o in ops) else ["pop", k])
        elif r < 0.7:
            ops.append(["update", [(rng.choice(KEYS), rand_spec(rng)) for _ in range(rng.randint(1, 3))]])
            last.update({kk: sp for kk, sp in ops[-1][1]})
        elif r < 0.76:
            ops.append(["setdefault", k, rand_spec(rng)])
        elif r < 0.79:
            ops.append(["clear"])
        elif r < 0.85:
            ops.append(["flush"])
        elif r < 0.93:
            ops.append(["set", k, ("dict", [("f0", ("int", 1))]) if rng.random() < 0.5 else ("list", [("int", 1)])])
            ops.append(["mutate", k, rng.randint(0, 9)])
            ops.append(["flush"])
        elif with_reload:
            ops.append(["reload"])
    return ops, with_reload


def canon(v):
    import msgpack
    import msgpack_numpy

    return msgpack.unpackb(msgpack.packb(v, default=msgpack_numpy.encode, use_bin_type=True), object_hook=msgpack_numpy.decode, raw=False)


def equal(a, b):
    import numpy as np

    if isinstance(a, np.ndarray) or isinstance(b, np.ndarray):
        return isinstance(a, np.ndarray) and isinstance(b, np.ndarray) and a.dtype == b.dtype and a.shape == b.shape and np.array_equal(a, b)
    if isinstance(a, dict):
        return isinstance(b, dict) and a.keys() == b.keys() and all(equal(a[k], b[k]) for k in a)
    if isinstance(a, (list, tuple)):
        return isinstance(b, (list, tuple)) and len(a) == len(b) and all(equal(x, y) for x, y in zip(a, b))
    return type(a) is type(b) and a == b


def compare(reopened, model, counters):
    rk, mk = set(reopened), set(model)
    if rk != mk:
        return ("key-came-back" if rk - mk else "key-lost"), f"extra {sorted(rk - mk)} missing {sorted(mk - rk)}"
    for k in mk:
        counters["values_compared"] += 1
        if not equal(reopened[k], canon(model[k])):
            return "stale-or-wrong-value", f"key {k!r}: reopened {jsonable(reopened[k])}, last written {jsonable(canon(model[k]))}"
    return None


def run_case(case):
    from bluesky.utils import PersistentDict

    out = []
    for i in range(case["start"], case["start"] + case["count"]):
        rng = rng_for(case["seed"], "C43", i)
        sub = {"start": i, "count": 1, "seed": case["seed"], "tier": case.get("tier", "quick")}
        ops, with_reload = rand_history(rng)
        base = tempfile.mkdtemp(prefix="c43")
        counters = {"histories": 1, "graceful_reopens": 0, "crash_reopens": 0, "reload_histories": int(with_reload),
                    "values_compared": 0}
        problems = []
        shape = "".join(o[0][0] if o[0] != "popitem" else "P" for o in ops)
        try:
            # (a) graceful drop
            d1 = os.path.join(base, "graceful")
            os.makedirs(d1)
            pd = PersistentDict(d1)
            mem, disk = {}, {}
            for op in ops:
                apply(pd, op, mem, disk)
            del pd
            gc.collect()
            re1 = PersistentDict(d1)
            counters["graceful_reopens"] = 1
            # after a graceful drop everything in memory has been written
            pr = compare(dict(re1), mem, counters)
            if pr:
                problems.append((f"graceful-reopen:{pr[0]}:{'after-reload' if with_reload else 'no-reload'}", pr[1]))
            del re1
            gc.collect()
            # (b) crash at prefixes
            prefixes = list(range(1, len(ops) + 1))
            real_crash = set(prefixes)
            if case.get("tier", "quick") == "quick":
                # quick tier: a real subprocess crash (os._exit) at one prefix of every 4th history; at every other prefix
                # the crash is emulated in-process by detaching the instance's finalizer before dropping it (file writes
                # are synchronous, so a dead process differs from this only by the finalizer that never runs)
                real_crash = {rng.choice(prefixes)} if i % 4 == 0 else set()
            for p in prefixes:
                # a prefix must not end between a mutate and its flush (the unflushed state is legitimately unspecified)
                if ops[p - 1][0] == "mutate":
                    continue
                d2 = os.path.join(base, f"crash{p}")
                os.makedirs(d2)
                hp = os.path.join(base, f"h{p}.json")
                with open(hp, "w") as f:
                    json.dump(ops[:p], f)
                if p in real_crash:
                    env = dict(os.environ)
                    r = subprocess.run([sys.executable, "-m", "vf.helpers.pdict_ops", d2, hp], env=env, capture_output=True, timeout=300)
                    counters["subprocess_crashes"] = counters.get("subprocess_crashes", 0) + 1
                    if r.returncode != 0:
                        problems.append(("crash-run-failed", r.stderr.decode()[-300:]))
                        continue
                else:
                    pdc = PersistentDict(d2)
                    for op in ops[:p]:
                        apply(pdc, op)
                    fin = getattr(pdc, "_finalizer", None)
                    if fin is None or not hasattr(fin, "detach"):
                        continue   # cannot emulate on this implementation: only the subprocess crashes count
                    fin.detach()
                    del pdc
                    gc.collect()
                mem2, disk2 = {}, {}

                class _M(dict):
                    def flush(self):
                        pass

                    def reload(self):
                        pass
                shadow = _M()
                for op in ops[:p]:
                    apply(shadow, op, mem2, disk2)
                re2 = PersistentDict(d2)
                counters["crash_reopens"] += 1
                pr = compare(dict(re2), disk2, counters)
                if pr:
                    problems.append((f"crash-reopen:{pr[0]}", f"after prefix {p} ({ops[p - 1][0]}): {pr[1]}"))
                del re2
                gc.collect()
        finally:
            shutil.rmtree(base, ignore_errors=True)
        key = f"{shape}|reload={with_reload}"
        if problems:
            seen = set()
            for kd, detail in problems:
                sig = f"C43:{kd}"
                if sig in seen:
                    continue
                seen.add(sig)
                out.append(R("violated", key + "|" + kd, True, sig=sig, detail=detail, witness={"ops": jsonable(ops)},
                             counters=counters, case=sub))
                counters = {}
        else:
            out.append(R("held", key, True, counters=counters, sample={"ops": jsonable(ops)} if len(ops) < 6 else None))
    return out
