"""C03 — pause/resume and suspend/release do not change the recorded data."""

from __future__ import annotations

from bluesky.utils import RunEngineInterrupted

from vf import sweepcheck
from vf.oracles.common import landing_info, lost_uncacheable, outcome_class, spec_json
from vf.worker import R

PROPERTY = "C03"
LEVEL = "exploration"
RULE = ("case = one execution of a checkpointed step plan (count, scan, grid_scan, list_scan, rel_scan, nested run keys, two "
        "consecutive runs, hand-written plans with monitors/staging/implicit checkpoints) on deterministic fakes with a "
        "pause (then resume) or a suspension (then release) landing after EVERY loop handle (thorough: two interruptions "
        "per execution); compared with the uninterrupted execution of the same plan: per run (by order), stream and "
        "seq_num the LAST event's data must be equal, RunStop num_events equal, and every resume()/release must complete "
        "without raising; distinct = (plan, command at landing, sub-handle, kind, #interruptions); non-trivial = >=1 event "
        "had been emitted before the landing")
ASSUMPTIONS = ["fake detectors are pure functions of the commanded motor positions; timestamps and uids are ignored",
               "monitor streams are asynchronous by nature and not compared (C05/C41 judge them)",
               "plans containing clear_checkpoint are excluded (C10)"]
REQUIRED_COUNTERS = {"executions": 600, "events_compared": 1500, "resumes": 300, "releases": 300,
                     "landed_after_first_event": 400}
MANIFEST = {
    "technique": "differential oracle against the uninterrupted run (last event per seq_num, num_events, resume outcome) "
                 "over an exhaustive pause/suspend coordinate sweep in virtual time",
    "category": "exploration",
    "text": "Pauses and suspensions land after every loop handle of the step plans; the final recorded data of every "
            "run/stream/seq_num and the RunStop counts are compared with the uninterrupted execution on identical fakes.",
    "note": "Corpus plans x all coordinates; deterministic loop-driven fakes.",
    "design_ref": "3 (C03)",
}
PLANS_Q = ["scan", "count", "two_runs", "nested", "custom", "mixed", "keys_sparse"]
PLANS_T = PLANS_Q + ["keys_sparse2", "grid", "list_scan", "rel_scan", "neverclose", "custom_mon"]
SHARD_TIMEOUT = {"quick": 900, "thorough": 3600}
worker_init = sweepcheck.worker_init


def gen_cases(tier, seed):
    return sweepcheck.gen_cases(tier, seed, PLANS_Q, PLANS_T, ["pause", "suspend"],
                                pairs=[("pause", "pause"), ("pause", "suspend"), ("suspend", "pause"), ("suspend", "suspend")])


def table(ex):
    """-> (per-run list of {stream: {seq_num: data}}, per-run num_events, monitor stream names)"""
    mon = {e[1].kwargs.get("name") for e in ex.log if e[0] == "msg" and e[1].command == "monitor"}
    runs, order, desc = {}, [], {}
    stops = {}
    for name, doc in ex.h.docs():
        if name == "start":
            runs[doc["uid"]] = {}
            order.append(doc["uid"])
        elif name == "descriptor":
            desc[doc["uid"]] = (doc["run_start"], doc.get("name"))
        elif name == "event":
            r, s = desc.get(doc["descriptor"], (None, None))
            if r in runs:
                runs[r].setdefault(s, {})[doc["seq_num"]] = doc["data"]
        elif name == "event_page":
            r, s = desc.get(doc["descriptor"], (None, None))
            if r in runs:
                for k, sn in enumerate(doc["seq_num"]):
                    runs[r].setdefault(s, {})[sn] = {kk: vv[k] for kk, vv in doc["data"].items()}
        elif name == "stop":
            stops[doc["run_start"]] = doc
    return [runs[u] for u in order], [stops.get(u, {}).get("num_events") for u in order], mon


def judge(ex, ref, case):
    li = landing_info(ex, len(ref.h.msgs()))
    key0 = f"{ex.spec['plan']}|" + ("+".join(f"{x['kind']}@{x['command']}#{x['coord'][1]}" for x in li) or "none")
    if ex.timeout or ex.stuck or ex.final_state != "idle":
        return [R("inconclusive", key0, detail="engine did not come back idle (judged by C07)")]
    if not li:
        return [R("skip", key0, False)]
    # only interruptions that landed while the plan was running are about "pause/resume of a plan"
    if all(x["state"] == "idle" for x in li):
        return [R("skip", key0, False, detail="landed when the plan was over")]
    problems = []
    counters = {"executions": 1, "events_compared": 0,
                "resumes": sum(1 for n, _ in ex.calls if n == "resume"),
                "releases": sum(1 for e in ex.log if e[0] == "msg" and e[1].command == "_resume_from_suspender")}
    for n, r in ex.calls:
        if r[0] == "exc" and not isinstance(r[1], RunEngineInterrupted):
            problems.append((f"{n}-raised:{type(r[1]).__name__}", f"{n} raised {r[1]!r}"))
    runs, nev, mon = table(ex)
    rruns, rnev, _ = table(ref)
    first_inj = next(i for i, e in enumerate(ex.log) if e[0] == "inject")
    ev_before = sum(1 for e in ex.log[:first_inj] if e[0] == "doc" and e[1] in ("event", "event_page"))
    counters["landed_after_first_event"] = int(ev_before > 0)
    if not problems:
        if len(runs) != len(rruns):
            problems.append(("number-of-runs-differs", f"{len(runs)} vs uninterrupted {len(rruns)}"))
        for k, (a, b) in enumerate(zip(runs, rruns)):
            for stream in set(a) | set(b):
                if stream in mon or stream == "interruptions":
                    continue
                sa, sb = a.get(stream, {}), b.get(stream, {})
                counters["events_compared"] += len(sb)
                if set(sa) != set(sb):
                    lost, extra = sorted(set(sb) - set(sa)), sorted(set(sa) - set(sb))
                    problems.append((("data-point-lost" if lost else "extra-seq_num"),
                                     f"run {k} stream {stream}: seq_nums {sorted(sa)} vs uninterrupted {sorted(sb)}"))
                else:
                    for sn in sb:
                        if sa[sn] != sb[sn]:
                            problems.append(("final-reading-differs", f"run {k} stream {stream} seq_num {sn}: {sa[sn]} vs {sb[sn]}"))
                            break
            na, nb = nev[k] or {}, rnev[k] or {}
            na = {s: v for s, v in na.items() if s not in mon and s != "interruptions"}
            nb = {s: v for s, v in nb.items() if s not in mon and s != "interruptions"}
            if na != nb:
                problems.append(("num_events-differs", f"run {k}: {na} vs uninterrupted {nb}"))
    key = f"{key0}|{outcome_class(ex)}"
    if problems:
        lost = lost_uncacheable(ex)
        if lost:
            return [R("violated", key, True, sig=f"C03:interrupted-uncacheable-command-lost:{lost}",
                      detail=f"{key}: {problems[0][1]}", witness={"spec": spec_json(ex.spec), "landing": li},
                      counters=counters, case={"replay_spec": spec_json(ex.spec)})]
        out, seen = [], set()
        for kd, detail in problems:
            sig = f"C03:{kd}:{'+'.join(x['kind'] for x in li)}:at={li[0]['command']}"
            if sig in seen:
                continue
            seen.add(sig)
            out.append(R("violated", key + "|" + kd, True, sig=sig, detail=f"{key}: {detail}",
                         witness={"spec": spec_json(ex.spec), "landing": li, "calls": outcome_class(ex)},
                         counters=counters, case={"replay_spec": spec_json(ex.spec)}))
            counters = {}
        return out
    return [R("held", key, ev_before > 0, counters=counters,
              sample={"plan": ex.spec["plan"], "inj": [i[:3] for i in ex.spec.get("inj", [])], "calls": outcome_class(ex),
                      "num_events": nev} if ev_before > 1 else None)]


def run_case(case):
    return sweepcheck.run_case(case, judge, decisions=(), first_decisions=("resume", "resume", "resume", "resume"))
