"""C10 — interrupting a non-resumable section aborts cleanly."""

from __future__ import annotations

from bluesky.utils import RunEngineInterrupted

from vf import sweepcheck
from vf.oracles.common import landing_info, outcome_class, spec_json
from vf.worker import R

PROPERTY = "C10"
LEVEL = "exploration"
RULE = ("case = one execution of a plan with clear_checkpoint after 0/1/2 data points (cleanup as finalize_wrapper plan or "
        "plain try/finally) with a pause, a thread-issued request_pause() or a suspension landing after EVERY loop handle, or with a 'pause' message issued by the plan itself at every position of the section; "
        "judged when the request takes effect after clear_checkpoint was processed: the engine never enters 'paused', the "
        "call raises RunEngineInterrupted, ends 'idle', every run is closed with exit_status 'abort', the plan's cleanup "
        "marker and cleanup messages come after the request, and the next call works; distinct = (plan, position after "
        "clear_checkpoint (command at landing), kind, outcome class); non-trivial = request accepted in the non-resumable "
        "section")
ASSUMPTIONS = ["'takes effect after clear_checkpoint' is read from the log: the engine's state change caused by the request "
               "comes after the clear_checkpoint message", "no checkpoint follows clear_checkpoint in these plans (toggling 'rewindable' or closing the run and opening "
               "another one inside the section is not a checkpoint)"]
REQUIRED_COUNTERS = {"executions": 300, "nonresumable_interruptions": 150, "pause_kind": 50, "suspend_kind": 50,
                     "cleanup_observed": 150, "deferred_kind": 10}
MANIFEST = {
    "technique": "log-order oracle (request after clear_checkpoint -> no 'paused', RunEngineInterrupted, idle, abort "
                 "status, cleanup after request, engine usable) over an exhaustive coordinate sweep",
    "category": "exploration",
    "text": "Pauses and suspensions land after every loop handle of plans with a non-resumable section at varying "
            "positions; every interruption taking effect inside the section must abort cleanly.",
    "note": "Plans with clear_checkpoint after 0/1/2 points, with rewindable toggles, a second run or checkpoints inside the section; requests at all coordinates (pause, thread pause, suspension, deferred pause) and pause messages issued by the plan at every position.",
    "design_ref": "3 (C10)",
}
PLANS_Q = ["clearcp", "clearcp0", "clearcp1", "clearcp2", "clearcp_rw", "clearcp_2runs"]
PLANS_T = PLANS_Q
SHARD_TIMEOUT = {"quick": 900, "thorough": 3600}
worker_init = sweepcheck.worker_init


def gen_cases(tier, seed):
    cases = sweepcheck.gen_cases(tier, seed, PLANS_Q, PLANS_T, ["pause", "suspend", "t-pause"], nslices=(3, 3))
    # a DEFERRED pause requested inside the section is served at the section's next 'checkpoint' message, which does not
    # make the plan resumable again: it must end in the same clean abort (and not be dropped)
    cases += sweepcheck.gen_cases(tier, seed, ["clearcp_cp"], ["clearcp_cp"], ["defer", "pause", "suspend"], nslices=(2, 2))
    # the plan itself asks for the pause (Msg('pause')) at every position of the section: no injection needed
    ks = range(0, 16) if tier == "thorough" else range(0, 16, 2)
    cases += [{"replay_spec": {"plan": f"clearcp_ip{pos}_{k}", "decisions": ["resume", "resume"]}, "kind": "inplan"}
              for pos in (0, 1, 2) for k in ks]
    return cases


def judge(ex, ref, case):
    li = landing_info(ex, len(ref.h.msgs()))
    key0 = f"{ex.spec['plan']}|" + ("+".join(f"{x['kind']}@{x['command']}" for x in li) or "none")
    if ex.timeout or ex.stuck:
        return [R("inconclusive", key0, detail="engine did not come back (judged by C07)")]
    log = ex.log
    inplan = next((i for i, e in enumerate(log) if e[0] == "plan" and e[1] == "inplan-pause"), None)
    if not li and inplan is None:
        return [R("skip", key0, False)]
    if not li:
        inj = inplan
        li = [{"kind": "inplan-pause", "command": "pause"}]
        key0 = f"{ex.spec['plan']}|inplan-pause"
    else:
        inj = next(i for i, e in enumerate(log) if e[0] == "inject")
    eff = next((i for i, e in enumerate(log) if i > inj and e[0] == "state" and e[1] in ("pausing", "suspending", "aborting")), None)
    if li[0]["kind"] == "defer":
        # takes effect at the first checkpoint processed after the request was accepted (within the section)
        acc = next((i for i, e in enumerate(log) if i > inj and e[0] == "req" and e[1] == "defer" and e[2] == "accepted"), None)
        cpi = None if acc is None else next((i for i, e in enumerate(log) if i > acc and e[0] == "msg" and e[1].command == "checkpoint"), None)
        eff = cpi
    cc = next((i for i, e in enumerate(log) if e[0] == "msg" and e[1].command == "clear_checkpoint"), None)
    end_call = next((i for i, e in enumerate(log) if e[0] in ("ret", "exc") and e[1] == "RE"), len(log))
    sec_end = next((i for i, e in enumerate(log) if e[0] == "plan" and e[1] in ("nonresumable-end", "cleanup-start")), len(log))
    if eff is None or cc is None or eff < cc or eff > end_call or eff > sec_end:
        return [R("skip", key0, False, detail="request did not take effect inside the non-resumable section")]
    kind = li[0]["kind"]
    counters = {"executions": 1, "nonresumable_interruptions": 1, "pause_kind": int("pause" in kind),
                "suspend_kind": int(kind == "suspend"), "cleanup_observed": 0, "deferred_kind": int(kind == "defer")}
    problems = []
    states_after = [e[1] for e in log[eff:] if e[0] == "state"]
    call_end = log[end_call] if end_call < len(log) else None
    if "paused" in [e[1] for e in log[eff:end_call + 1] if e[0] == "state"]:
        problems.append(("paused-in-non-resumable-section", "the engine entered 'paused'"))
    if call_end is None or call_end[0] != "exc" or not isinstance(call_end[2], RunEngineInterrupted):
        problems.append(("interruption-not-reported", f"call ended {call_end[:2] if call_end else None}: "
                         f"{call_end[2] if call_end else None!r}"))
    st_end = [e[1] for e in log[:end_call] if e[0] == "state"][-1]
    if st_end != "idle":
        problems.append((f"ended-{st_end}", f"state after the call: {st_end}"))
    # runs closed as abort
    opened = [e[2]["uid"] for e in log if e[0] == "doc" and e[1] == "start"]
    stops = {e[2]["run_start"]: (i, e[2]) for i, e in enumerate(log) if e[0] == "doc" and e[1] == "stop"}
    for u in opened:
        if u not in stops:
            problems.append(("run-left-open", f"run {u} not closed"))
        elif stops[u][0] > eff and stops[u][1]["exit_status"] != "abort":
            problems.append((f"run-closed-as-{stops[u][1]['exit_status']}", f"exit_status {stops[u][1]['exit_status']!r}"))
    # cleanup after the request
    cs = next((i for i, e in enumerate(log) if e[0] == "plan" and e[1] == "cleanup-start"), None)
    ce = next((i for i, e in enumerate(log) if e[0] == "plan" and e[1] == "cleanup-end"), None)
    if cs is None or ce is None:
        problems.append(("cleanup-did-not-run", f"cleanup markers start={cs} end={ce}"))
    elif cs < eff:
        problems.append(("cleanup-before-request", f"cleanup at {cs}, request effective at {eff}"))
    else:
        counters["cleanup_observed"] = 1
    if any(e[0] == "plan" and e[1] == "nonresumable-end" for e in log[eff:]) and not problems:
        problems.append(("plan-continued-after-interruption", "the non-resumable section ran to its end after the request"))
    if ex.probe is not None and ex.probe[0] != "ret" and not isinstance(ex.probe[1], RunEngineInterrupted):
        problems.append(("next-call-failed", f"{ex.probe[1]!r}"))
    key = f"{key0}|{outcome_class(ex)}"
    if problems:
        out, seen = [], set()
        for kd, detail in problems:
            sig = f"C10:{kd}:{kind}"
            if sig in seen:
                continue
            seen.add(sig)
            out.append(R("violated", key + "|" + kd, True, sig=sig, detail=f"{key}: {detail}",
                         witness={"spec": spec_json(ex.spec), "landing": li, "calls": outcome_class(ex),
                                  "states": states_after[:10]}, counters=counters, case={"replay_spec": spec_json(ex.spec)}))
            counters = {}
        return out
    return [R("held", key, True, counters=counters,
              sample={"plan": ex.spec["plan"], "inj": [i[:3] for i in ex.spec.get("inj", [])], "calls": outcome_class(ex),
                      "states_after_request": states_after[:8]} if kind == "suspend" else None)]


def run_case(case):
    return sweepcheck.run_case(case, judge, decisions=("abort",), first_decisions=("resume", "resume"))
