"""C17 — RunStart metadata merges its sources with the documented precedence."""

from __future__ import annotations

import copy

from bluesky.utils import Msg

from vf.common import jsonable, rng_for
from vf.oracles.common import quiet_logging
from vf.reh import Harness
from vf.worker import R

PROPERTY = "C17"
LEVEL = "exploration"
RULE = ("case = a history of 2..6 RE(plan, **kw) calls on one engine, each opening one run; the four metadata sources "
        "(persistent RE.md, plan identity, open_run kwargs, call kwargs) are seeded dictionaries over a small key pool so "
        "that keys overlap in every pattern, incl. 'sample' and 'scan_id' overrides; md_normalizer in {identity, add key, "
        "rename key, drop key, whitelist (often empty result)}; a later subscriber raising on 'start' in some calls; md_validator accepts or rejects (by a marker in the merged md), or the normalizer itself refuses by raising; scan_id_source in "
        "{default, custom sync, custom async}; oracle: RunStart minus uid/time == normalizer(persistent + plan identity + "
        "open_run md + call kw, later wins); with the default source scan_ids of consecutive OPENED runs differ by exactly "
        "1 and equal RE.md['scan_id']; a rejecting validator raises at the open_run yield and no RunStart is emitted; "
        "distinct = (key-overlap pattern, normalizer, validator history shape, scan_id source)")
ASSUMPTIONS = ["reserved keys uid/time are not supplied; schema-typed keys are only given schema-valid values"]
REQUIRED_COUNTERS = {"histories": 200, "starts_checked": 500, "rejected_opens": 100, "overlapping_keys": 500,
                     "accept_after_reject": 50, "start_emission_faults": 30, "empty_normalizer_results": 5, "rejected_by_normalizer": 30}
MANIFEST = {
    "technique": "reference merge model vs RunStart documents of the real engine over seeded multi-call histories with "
                 "overlapping metadata sources, validators and normalizers",
    "category": "exploration",
    "text": "Seeded histories of calls with overlapping metadata in all four sources, accepting/rejecting validators and "
            "transforming normalizers are executed; every RunStart and the scan_id sequence are compared with an "
            "independent precedence model.",
    "note": "Sampled dictionaries over a small key pool so that all overlap patterns occur.",
    "design_ref": "4 (C17)",
}
KEYS = ["k0", "k1", "k2", "k3", "sample", "purpose"]


def worker_init(tier, seed):
    quiet_logging()


def gen_cases(tier, seed):
    n = 300 if tier == "quick" else 5000
    return [{"start": s, "count": 15, "seed": seed} for s in range(0, n, 15)]


def rand_md(rng, src, allow_scan_id=False):
    md = {}
    for k in KEYS:
        if rng.random() < 0.45:
            md[k] = f"{src}:{k}" if k != "sample" or rng.random() < 0.5 else {"name": src}
    if allow_scan_id and rng.random() < 0.1:
        md["scan_id"] = rng.randint(100, 200)
    return md


def normalizers():
    def ident(md):
        return md

    def add(md):
        d = dict(md)
        d["normalized"] = True
        return d

    def rename(md):
        d = dict(md)
        if "k1" in d:
            d["k1_renamed"] = d.pop("k1")
        return d

    def drop(md):
        d = dict(md)
        d.pop("k2", None)
        return d

    def whitelist(md):  # frequently returns an empty (falsy) dictionary
        return {k: v for k, v in md.items() if k == "k3"}

    return {"identity": ident, "add": add, "rename": rename, "drop": drop, "whitelist": whitelist}


def run_case(case):
    out = []
    for i in range(case["start"], case["start"] + case["count"]):
        rng = rng_for(case["seed"], "C17", i)
        sub = {"start": i, "count": 1, "seed": case["seed"]}
        norm_name = rng.choice(["identity", "identity", "add", "rename", "drop", "whitelist", "whitelist"])
        norm = normalizers()[norm_name]
        src_kind = rng.choice(["default", "default", "sync", "async"])
        kw = {}

        def validator(md):
            if md.get("reject"):
                raise ValueError("rejected by validator")

        kw["md_validator"] = validator

        def norm_or_refuse(md, _norm=norm):
            if md.get("reject_in_normalizer"):
                raise ValueError("rejected by normalizer")
            return _norm(md)

        kw["md_normalizer"] = norm_or_refuse
        if src_kind == "sync":
            kw["scan_id_source"] = lambda md: md.get("scan_id", 0) + 10
        elif src_kind == "async":
            async def src(md):
                return md.get("scan_id", 0) + 7
            kw["scan_id_source"] = src
        persistent = rand_md(rng, "persistent")
        h = Harness(md=dict(persistent), **kw)
        RE = h.RE
        fail_start = {"on": False}

        def late_subscriber(name, doc):  # registered after the harness' recorder, so the recorder has seen the document
            if name == "start" and fail_start["on"]:
                raise RuntimeError("subscriber failed on start")

        RE.subscribe(late_subscriber)
        ncalls = rng.randint(2, 6)
        problems = []
        counters = {"histories": 1, "starts_checked": 0, "rejected_opens": 0, "overlapping_keys": 0, "accept_after_reject": 0,
                    "start_emission_faults": 0, "empty_normalizer_results": 0, "rejected_by_normalizer": 0}
        prev_scan_id = None
        prev_was_reject = False
        shape = ""
        for c in range(ncalls):
            if rng.random() < 0.3:
                upd = rand_md(rng, f"persistent{c}")
                RE.md.update(upd)
            open_md = rand_md(rng, f"open{c}", allow_scan_id=True)
            call_md = rand_md(rng, f"call{c}", allow_scan_id=True)
            reject = rng.random() < 0.3
            if reject:
                # refused by the validator, or (a third of the time) by the NORMALIZER raising on it
                marker = "reject" if rng.random() < 0.67 else "reject_in_normalizer"
                (open_md if rng.random() < 0.5 else call_md)[marker] = True
                counters["rejected_by_normalizer"] += int(marker != "reject")
            seen = {}

            def the_plan():
                try:
                    uid = yield Msg("open_run", **open_md)
                    seen["uid"] = uid
                except Exception as e:  # noqa: BLE001
                    seen["exc"] = e
                    return
                yield Msg("close_run")

            plan = the_plan()
            fail_start["on"] = (not reject) and rng.random() < 0.15
            counters["start_emission_faults"] += int(fail_start["on"])
            md_before = copy.deepcopy(dict(RE.md))
            ndoc = len(h.docs())
            r = h.call("RE", RE, plan, **call_md)
            new_docs = h.docs()[ndoc:]
            starts = [d for n, d in new_docs if n == "start"]
            shape += "r" if reject else "a"
            if reject:
                counters["rejected_opens"] += 1
                if "exc" not in seen:
                    problems.append(("rejected-metadata-did-not-raise-at-open_run", f"call {c}: plan saw {seen}"))
                elif not isinstance(seen["exc"], ValueError):
                    problems.append((f"validator-error-surfaced-as-{type(seen['exc']).__name__}", repr(seen["exc"])))
                if starts:
                    problems.append(("RunStart-emitted-despite-rejecting-validator", f"call {c}"))
                prev_was_reject = True
                continue
            if len(starts) != 1:
                problems.append((f"{len(starts)}-RunStart-documents", f"call {c}: result {r}"))
                continue
            st = starts[0]
            counters["starts_checked"] += 1
            counters["accept_after_reject"] += int(prev_was_reject)
            # expected merge
            base = dict(RE.md)       # persistent metadata as the engine keeps it now (incl. the updated scan_id)
            exp = dict(base)
            exp.update({"plan_type": "generator", "plan_name": "the_plan"})
            exp.update(open_md)
            exp.update(call_md)
            exp = norm(copy.deepcopy(exp))
            counters["empty_normalizer_results"] += int(not exp)
            got = {k: v for k, v in st.items() if k not in ("uid", "time")}
            keys_multi = sum(1 for k in KEYS if sum(k in d for d in (md_before, open_md, call_md)) >= 2)
            counters["overlapping_keys"] += keys_multi
            if got != exp:
                diff = {k: (got.get(k, "<missing>"), exp.get(k, "<missing>")) for k in set(got) | set(exp) if got.get(k, "<m>") != exp.get(k, "<m>")}
                k0 = sorted(diff)[0]
                srcs = [nm for nm, d in (("persistent", md_before), ("open_run", open_md), ("call", call_md)) if k0 in d]
                problems.append((f"RunStart-differs-from-merged-metadata:sources={'+'.join(srcs) or 'derived'}:normalizer={norm_name}",
                                 f"call {c}: {jsonable(diff)}"))
            sid = RE.md.get("scan_id")
            if src_kind == "default":
                if "scan_id" not in open_md and "scan_id" not in call_md and "scan_id" in st and st["scan_id"] != sid:
                    problems.append(("scan_id-in-RunStart-differs-from-persistent", f"{st.get('scan_id')} vs RE.md {sid}"))
                if prev_scan_id is not None and sid != prev_scan_id + 1:
                    problems.append((f"scan_id-step-{sid - prev_scan_id}:after-{'rejected' if prev_was_reject else 'accepted'}-open",
                                     f"consecutive opened runs have scan_id {prev_scan_id} and {sid}"))
                if prev_scan_id is None and sid != 1 and "scan_id" not in persistent:
                    if not prev_was_reject:
                        problems.append((f"first-scan_id-{sid}", "expected 1"))
                    else:
                        problems.append((f"scan_id-step-{sid}:after-rejected-open", f"first opened run got scan_id {sid}"))
                prev_scan_id = sid
            prev_was_reject = False
        h.close()
        key = f"{norm_name}|{src_kind}|{shape}"
        if problems:
            seen_s = set()
            for kd, detail in problems:
                sig = f"C17:{kd}"
                if sig in seen_s:
                    continue
                seen_s.add(sig)
                out.append(R("violated", key + "|" + kd, True, sig=sig, detail=detail, witness={"history": shape, "normalizer": norm_name, "scan_id_source": src_kind},
                             counters=counters, case=sub))
                counters = {}
        else:
            out.append(R("held", key, True, counters=counters,
                         sample={"history": shape, "normalizer": norm_name, "scan_id_source": src_kind, "persistent": jsonable(persistent)}
                         if "r" in shape and "a" in shape else None))
    return out
