"""C06 — devices are always left cleaned up when the RunEngine goes idle."""

from __future__ import annotations

from vf import sweepcheck
from vf.oracles.common import landing_info, outcome_class, spec_json
from vf.sweep import KINDS, execute, reference_coords
from vf.worker import R

PROPERTY = "C06"
LEVEL = "fault_enumeration"
RULE = ("case = one execution of a corpus plan that stages, sets, kicks off and monitors fake devices, with every "
        "interruption kind landing after EVERY loop handle, every post-pause decision, and every non-cleanup device "
        "operation failing in three modes; when the engine is idle again the device ledger must show: staged flag clear "
        "and #unstage == #stage for every device staged at least once, a stop() after the last set() of every device that "
        "was set, a complete/collect/describe_collect attempt after every kickoff, no callback left in any monitored "
        "signal; distinct = (plan, device operations outstanding at landing, kind, decisions, outcome class); non-trivial "
        "= something was staged, set, kicked off or monitored when the request landed")
ASSUMPTIONS = ["fake devices follow the ophyd staging contract (redundant stage raises)",
               "an unstage of a device that was never staged is not a violation",
               "faults are injected into stage/set/trigger/read/kickoff/complete and into a signal's subscribe/clear_sub (one failure per execution; the engine's own retry in its clean-up then succeeds)"]
REQUIRED_COUNTERS = {"executions": 1000, "idle_points_judged": 1000, "staged_at_landing": 300, "moved_at_landing": 300,
                     "kicked_at_landing": 20, "monitored_at_landing": 100, "fault_executions": 50}
MANIFEST = {
    "technique": "device-ledger invariant check at every return to idle over an exhaustive interruption sweep and a "
                 "device-fault enumeration",
    "category": "fault_enumeration",
    "text": "Fake devices record every call; after each execution (all interruption kinds at all coordinates, all "
            "decisions, all device failures) the ledger is checked for balanced staging, stop-after-last-set, collection "
            "of kicked-off flyers and absence of leftover monitor subscriptions.",
    "note": "Corpus plans x all coordinates x fault points; fakes, not real hardware.",
    "design_ref": "3 (C06)",
}
PLANS_Q = ["scan", "custom", "fly", "norun", "clearcp", "count", "mon_closeleft"]
PLANS_T = PLANS_Q + ["grid", "nested", "rel_scan", "list_scan", "custom_mon", "neverclose"]
SHARD_TIMEOUT = {"quick": 900, "thorough": 3600}
worker_init = sweepcheck.worker_init


def gen_cases(tier, seed):
    cases = sweepcheck.gen_cases(tier, seed, PLANS_Q, PLANS_T, KINDS)
    for p in (PLANS_Q if tier == "quick" else PLANS_T):
        cases.append({"plan": p, "faults": True, "seed": seed})
    return cases


def ledger_state(log, upto=None):
    """Fold the ledger: per device counts and ordering facts."""
    st = {}
    seq = log if upto is None else log[:upto]
    for i, e in enumerate(seq):
        if e[0] != "dev":
            continue
        if i + 1 < len(seq) and seq[i + 1][0] == "fault" and seq[i + 1][3] == "raise" and seq[i + 1][1:3] == e[1:3] \
                and e[2] != "set":
            continue  # the operation raised: it did not take place (a set() that raised may still have started a move)
        d = st.setdefault(e[1], {"stage": 0, "unstage": 0, "last_set": None, "last_stop": None, "last_kick": None,
                                 "last_collectish": None, "sub": 0, "clear": 0})
        op = e[2]
        if op == "stage":
            d["stage"] += 1
        elif op == "unstage":
            d["unstage"] += 1
        elif op == "set":
            d["last_set"] = i
        elif op == "stop":
            d["last_stop"] = i
        elif op == "kickoff":
            d["last_kick"] = i
        elif op in ("complete", "collect", "describe_collect"):
            d["last_collectish"] = i
    return st


def judge(ex, ref, case):
    li = landing_info(ex, len(ref.h.msgs()))
    faults = [e for e in ex.log if e[0] == "fault"]
    key0 = f"{ex.spec['plan']}|" + ("+".join(f"{x['kind']}@{x['command']}" for x in li) or
                                   ("fault:" + "+".join(f"{e[1]}.{e[2]}:{e[3]}" for e in faults) if faults else "none"))
    if ex.timeout or ex.stuck or ex.final_state != "idle":
        return [R("inconclusive", key0, detail="engine did not come back idle (judged by C07)")]
    if not li and not faults:
        return [R("skip", key0, False, counters={"executions": 1})]
    log = ex.log
    # judge at the end of the judged history (before the probe)
    end = next((i for i, e in enumerate(log) if (e[0] == "call" and e[1] == "probe") or e[0] == "harness"), len(log))
    st = ledger_state(log, end)
    d = ex.devices
    problems = []
    stage_failed = {e[1] for e in faults if e[2] in ("stage", "unstage")}
    for name, s in st.items():
        dev = d.get(name)
        if s["stage"] >= 1 and name not in stage_failed:
            if getattr(dev, "staged", False):
                problems.append(("left-staged", f"{name} still staged: stage x{s['stage']} unstage x{s['unstage']}"))
            elif s["unstage"] != s["stage"]:
                problems.append((f"unstage-count:{'more' if s['unstage'] > s['stage'] else 'fewer'}",
                                 f"{name}: stage x{s['stage']} unstage x{s['unstage']}"))
        if s["last_set"] is not None and (s["last_stop"] is None or s["last_stop"] < s["last_set"]):
            problems.append(("no-stop-after-last-set", f"{name}: last set at log {s['last_set']}, last stop {s['last_stop']}"))
        if s["last_kick"] is not None and (s["last_collectish"] is None or s["last_collectish"] < s["last_kick"]):
            problems.append(("kicked-off-flyer-not-collected", f"{name}: kickoff at {s['last_kick']}, collect attempt {s['last_collectish']}"))
    for sname in ("sig", "sig2"):
        sig_dev = d.get(sname)
        if sig_dev is not None and sig_dev.subs:
            problems.append((f"monitor-subscription-left:{len(sig_dev.subs)}", f"{sname} still has {len(sig_dev.subs)} callback(s)"))
    # what was outstanding at landing
    first = next((i for i, e in enumerate(log) if e[0] in ("inject", "fault")), 0)
    at = ledger_state(log, first)
    staged_at = sorted(n for n, s in at.items() if s["stage"] > s["unstage"])
    moved_at = sorted(n for n, s in at.items() if s["last_set"] is not None)
    kicked_at = sorted(n for n, s in at.items() if s["last_kick"] is not None and (s["last_collectish"] or -1) < s["last_kick"])
    mon_at = sum(1 for e in log[:first] if e[0] == "dev" and e[2] == "subscribe") - sum(1 for e in log[:first] if e[0] == "dev" and e[2] == "clear_sub")
    counters = {"executions": 1, "idle_points_judged": 1, "staged_at_landing": int(bool(staged_at)),
                "moved_at_landing": int(bool(moved_at)), "kicked_at_landing": int(bool(kicked_at)),
                "monitored_at_landing": int(mon_at > 0), "fault_executions": int(bool(faults))}
    key = f"{key0}|staged={staged_at}|moved={moved_at}|kicked={kicked_at}|mon={mon_at > 0}|{outcome_class(ex)}"
    if problems:
        out, seen = [], set()
        where = "+".join(x["kind"] for x in li) or "device-fault"
        for kd, detail in problems:
            sig = f"C06:{kd}:{where}"
            if sig in seen:
                continue
            seen.add(sig)
            out.append(R("violated", key + "|" + kd, True, sig=sig, detail=f"{key}: {detail}",
                         witness={"spec": spec_json(ex.spec), "landing": li,
                                  "ledger": [(e[1], e[2], str(e[3])[:30]) for e in log[:end] if e[0] == "dev" and e[2] in
                                             ("stage", "unstage", "set", "stop", "kickoff", "complete", "collect", "subscribe", "clear_sub")][-40:]},
                         counters=counters, case={"replay_spec": spec_json(ex.spec)}))
            counters = {}
        return out
    return [R("held", key, bool(staged_at or moved_at or kicked_at or mon_at > 0), counters=counters,
              sample={"plan": ex.spec["plan"], "inj": ex.spec.get("inj"), "faults": ex.spec.get("faults"),
                      "staged_at_landing": staged_at, "moved": moved_at, "calls": outcome_class(ex),
                      "ledger_tail": [(e[1], e[2]) for e in log[:end] if e[0] == "dev" and e[2] in ("unstage", "stop", "clear_sub", "collect")][-8:]}
              if staged_at and moved_at else None)]


def run_case(case):
    if case.get("faults"):
        ref, _ = reference_coords({"plan": case["plan"]})
        ops, counts = [], {}
        for e in ref.log:
            if e[0] == "dev" and e[2] in ("set", "trigger", "read", "stage", "kickoff", "complete", "clear_sub", "subscribe"):
                k = (e[1], e[2])
                counts[k] = counts.get(k, 0) + 1
                ops.append((e[1], e[2], counts[k]))
        out = []
        for (dev, op, n) in ops:
            for mode in ["raise"] + (["fail-now", "fail-later"] if op in ("set", "trigger", "kickoff", "complete") else []):
                out += judge(execute({"plan": case["plan"], "faults": [[[dev, op, n], mode]], "decisions": []}), ref, case)
        return out
    return sweepcheck.run_case(case, judge)
