"""C09 — a deferred pause takes effect exactly at the next checkpoint."""

from __future__ import annotations

from bluesky.utils import RunEngineInterrupted

from vf import sweepcheck
from vf.oracles.common import landing_info, outcome_class, requests, spec_json
from vf.oracles.replay import run_automaton
from vf.worker import R

PROPERTY = "C09"
LEVEL = "exploration"
RULE = ("case = one execution of a plan whose checkpoints are 1..8 messages apart (built-in scans, 'spaced' plans with a "
        "given spacing and with no checkpoint after position p) with a deferred pause request landing after EVERY loop "
        "handle; oracle: after the request is accepted the engine keeps processing messages up to and including the next "
        "'checkpoint', is 'paused' with no further message, resume() replays nothing; if no checkpoint follows the call "
        "returns normally, deferred_pause_requested is True until the next call starts and False once it has; distinct = "
        "(plan, distance from the landing to the next checkpoint, command at landing, follows / does not follow); "
        "non-trivial = the request was accepted while running")
ASSUMPTIONS = ["the 0.5 s grace sleep before the pause is virtual time", "plans that executed clear_checkpoint are excluded"]
REQUIRED_COUNTERS = {"executions": 250, "paused_at_checkpoint": 150, "no_checkpoint_follows": 30, "resumes_judged": 150}
MANIFEST = {
    "technique": "log-order oracle (accepted deferred request -> next checkpoint -> paused, empty replay frame, pending "
                 "flag) over an exhaustive request-coordinate sweep on plans with varying checkpoint spacing",
    "category": "exploration",
    "text": "A deferred pause is requested after every loop handle of plans with checkpoint spacing 1..8 and with no "
            "further checkpoint; the position of the pause, the emptiness of the replay and the pending flag across "
            "calls are checked.",
    "note": "Corpus + spaced plans x all coordinates; deferred request followed by a suspension (pairs).",
    "design_ref": "3 (C09)",
}
PLANS_Q = ["spaced1", "spaced3", "spaced8", "spaced_tail", "scan", "custom"]
PLANS_T = PLANS_Q + ["spaced2", "spaced5", "count", "grid", "nested", "norun", "two_runs"]
SHARD_TIMEOUT = {"quick": 900, "thorough": 3600}
worker_init = sweepcheck.worker_init


def gen_cases(tier, seed):
    cases = sweepcheck.gen_cases(tier, seed, PLANS_Q, PLANS_T, ["defer"])
    # a suspension (or a second, hard request) arriving between the deferred request and the checkpoint it waits for
    for p in (PLANS_Q if tier == "quick" else PLANS_T):
        cases.append({"plan": p, "kind": "defer", "kind2": "suspend", "pairs": 14 if tier == "quick" else 40, "seed": seed,
                      "spec_extra": {}})
    return cases


def judge(ex, ref, case):
    li = landing_info(ex, len(ref.h.msgs()))
    key0 = f"{ex.spec['plan']}|" + ("+".join(f"{x['kind']}@{x['command']}" for x in li) or "none")
    if ex.timeout or ex.stuck or ex.final_state != "idle":
        return [R("inconclusive", key0, detail="engine did not come back idle (judged by C07)")]
    if not li:
        return [R("skip", key0, False)]
    log = ex.log
    acc = next((i for i, e in enumerate(log) if e[0] == "req" and e[1] == "defer"), None)
    if acc is None or log[acc][2] != "accepted":
        return [R("skip", key0, False, detail="request rejected (engine not running)")]
    problems = []
    counters = {"executions": 1, "paused_at_checkpoint": 0, "no_checkpoint_follows": 0, "resumes_judged": 0}
    # first checkpoint processed after the acceptance, within the same call
    end_call = next((i for i, e in enumerate(log) if i > acc and e[0] in ("ret", "exc") and e[1] == "RE"), len(log))
    cp = next((i for i in range(acc, end_call) if log[i][0] == "msg" and log[i][1].command == "checkpoint"), None)
    dist = None
    if cp is not None:
        dist = sum(1 for e in log[acc:cp] if e[0] == "msg")
        counters["paused_at_checkpoint"] = 1
        # the call must end paused (RunEngineInterrupted), with no message after the checkpoint
        r = log[end_call] if end_call < len(log) else None
        # (a suspension that interrupts the checkpoint while it honours the request runs its helper messages and the
        #  checkpoint is executed again: those are not plan messages "after the checkpoint")
        cp_msg = log[cp][1]
        helper = ("_start_suspender", "rewindable", "wait_for", "_resume_from_suspender")
        later = [e[1].command for e in log[cp + 1:end_call] if e[0] == "msg" and e[1] is not cp_msg
                 and not (e[1].command in helper or (e[1].command == "null" and e[1].args and str(e[1].args[0])[:3] in ("pre", "pos")))]
        if later:
            problems.append(("message-executed-after-the-checkpoint", f"{later[:4]} ran after the checkpoint before pausing"))
        if r is None or r[0] != "exc" or not isinstance(r[2], RunEngineInterrupted):
            problems.append(("did-not-pause-at-checkpoint", f"call ended {None if r is None else r[0]}:{None if r is None else r[2 if r[0] == 'exc' else 2]!r}"))
        else:
            st = [e[1] for e in log[:end_call] if e[0] == "state"][-1]
            if st != "paused":
                problems.append((f"state-{st}-after-deferred-pause", f"state {st}"))
            # resume replays nothing
            aprob, c = run_automaton(log)
            counters["resumes_judged"] = 1
            res = next((i for i, e in enumerate(log) if i > end_call and e[0] == "call" and e[1] == "resume"), None)
            if res is not None:
                nxt = next((e[1] for e in log[res:] if e[0] == "msg"), None)
                seen_before = {id(e[1]) for e in log[:res] if e[0] == "msg"}
                if nxt is not None and id(nxt) in seen_before:
                    problems.append(("resume-replayed-a-message", f"{nxt.command} re-executed after resuming from a deferred pause"))
    else:
        counters["no_checkpoint_follows"] = 1
        r = log[end_call] if end_call < len(log) else None
        if r is None or r[0] != "ret":
            problems.append(("no-checkpoint-but-call-did-not-return-normally", f"{r[:3] if r else None}"))
        if ex.deferred_after is not True:
            problems.append(("pending-flag-not-reported", f"deferred_pause_requested={ex.deferred_after} after the call"))
        if ex.deferred_after_probe is not False:
            problems.append(("pending-flag-not-cleared-by-next-call", f"deferred_pause_requested={ex.deferred_after_probe} after the next call"))
        if ex.probe is not None and ex.probe[0] != "ret":
            problems.append(("next-call-affected", f"next call ended {ex.probe[1]!r}"))
    key = f"{key0}|dist={dist}|{outcome_class(ex)}"
    if problems:
        out, seen = [], set()
        for kd, detail in problems:
            sig = f"C09:{kd}"
            if sig in seen:
                continue
            seen.add(sig)
            out.append(R("violated", key + "|" + kd, True, sig=sig, detail=f"{key}: {detail}",
                         witness={"spec": spec_json(ex.spec), "landing": li, "calls": outcome_class(ex),
                                  "messages_after_request": [e[1].command for e in log[acc:end_call] if e[0] == "msg"][:12]},
                         counters=counters, case={"replay_spec": spec_json(ex.spec)}))
            counters = {}
        return out
    return [R("held", key, li[0]["state"] == "running", counters=counters,
              sample={"plan": ex.spec["plan"], "inj": [i[:3] for i in ex.spec.get("inj", [])], "distance_to_checkpoint": dist,
                      "calls": outcome_class(ex), "pending_after": ex.deferred_after} if dist in (None, 3, 8) else None)]


def run_case(case):
    return sweepcheck.run_case(case, judge, decisions=(), first_decisions=("resume", "resume", "resume"))
