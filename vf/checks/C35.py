"""C35 — document normalization never alters its inputs and loses nothing."""

from __future__ import annotations

import copy

from vf.common import jsonable, rng_for
from vf.worker import R

PROPERTY = "C35"
LEVEL = "fault_enumeration"
RULE = ("two case families. (a) one synthetic run (event_model.compose_*) fed to RunNormalizer: legacy Resource/Datum "
        "(spec in the mimetype table or not; resource_kwargs with 'path' or 'dataset'; datum_kwargs with or without "
        "'frame'), datum before or after the event that references it, datum_page / event_page packing, reserved data keys "
        "'time'/'seq_num', or current StreamResource/StreamDatum; 1-5 events; in 3 of 10 runs the stream is re-described in mid-run (second descriptor of the same name, numbering and the legacy frame counter continuing); oracle: a deep snapshot of every input "
        "document taken before the call equals the document after the WHOLE run; every emitted document passes the "
        "event-model schema; every internal value of every event is present in the emitted events; every datum referenced "
        "by an event yields exactly one stream_datum whose indices/seq_nums match that event. (b) _ConditionalBackup with a "
        "primary that raises at document k for EVERY k of a run and 1-2 backups: each backup receives every document of "
        "the run exactly once, in order; distinct = (stream class, datum/event order, packing) / (run length, failure point)")
ASSUMPTIONS = ["events reference one frame each", "a backup callback that itself raises is outside the statement"]
REQUIRED_COUNTERS = {"runs_normalized": 200, "inputs_snapshotted": 2000, "emitted_validated": 1500, "datums_converted": 300,
                     "backup_failure_points": 300, "datum_after_event_runs": 40, "redescribed_legacy_frame_runs": 10}
MANIFEST = {
    "technique": "input-immutability snapshot oracle + schema oracle + datum->stream_datum matching on the real RunNormalizer; "
                 "exhaustive failure-point enumeration on the real _ConditionalBackup",
    "category": "fault_enumeration",
    "text": "Synthetic legacy and current runs in all datum/event orders are normalised by the real RunNormalizer while "
            "deep snapshots guard every input; the emitted stream is schema-validated and matched against the events; the "
            "conditional backup is driven with the primary failing at every document index.",
    "note": "Synthetic documents built with event_model's own composers; failure points enumerated exhaustively per run.",
    "design_ref": "7 (C35)",
}


def gen_cases(tier, seed):
    n = 300 if tier == "quick" else 5000
    return [{"kind": "norm", "start": s, "count": 20, "seed": seed} for s in range(0, n, 20)] + \
           [{"kind": "backup", "start": s, "count": 10, "seed": seed} for s in range(0, n // 5, 10)]


def build_run(rng):
    from event_model import compose_run, pack_datum_page, pack_event_page

    style = rng.choice(["legacy", "legacy", "legacy-noframe", "current", "internal-only"])
    order = rng.choice(["datum-first", "datum-after", "datum-first"])
    packing = rng.choice(["single", "single", "pages"])
    reserved = rng.random() < 0.3
    run = compose_run(metadata={"purpose": "c35", "nested": {"a": [1, 2, {"b": 3}]}})
    docs = [("start", run.start_doc)]
    dks = {"x": {"dtype": "number", "shape": [], "source": "s"}}
    if reserved:
        dks["time"] = {"dtype": "number", "shape": [], "source": "s"}
    ext = style != "internal-only"
    if ext:
        dks["img"] = {"dtype": "array", "shape": [2, 2], "source": "file", "external": "FILESTORE:" if style.startswith("legacy") else "STREAM:"}
    desc = run.compose_descriptor(name="primary", data_keys=dks, object_keys={"det": list(dks)},
                                  configuration={"det": {"data": {"c": 1}, "timestamps": {"c": 1.0},
                                                         "data_keys": {"c": {"dtype": "number", "shape": [], "source": "cfg"}}}})
    docs.append(("descriptor", desc.descriptor_doc))
    n = rng.randint(1, 5)
    # the stream may be re-described in mid-run (second descriptor, same name: numbering and, for legacy data, the frame
    # counter of the open Resource simply continue)
    redesc_at = rng.randint(1, n - 1) if (n >= 2 and rng.random() < 0.3) else None
    desc2 = None
    if redesc_at is not None:
        packing = "single"
        desc2 = run.compose_descriptor(name="primary", data_keys=copy.deepcopy(dks), object_keys={"det": list(dks)},
                                       configuration={"det": {"data": {"c": 2}, "timestamps": {"c": 2.0},
                                                              "data_keys": {"c": {"dtype": "number", "shape": [], "source": "cfg"}}}})
    events, datums = [], []
    if style.startswith("legacy"):
        spec = rng.choice(["AD_HDF5_SWMR_STREAM", "AD_TIFF", "SOMETHING_ELSE", "hdf5"])
        rk = {"path": "/entry/data", "frame_per_point": 1} if rng.random() < 0.5 else {"dataset": "/entry/d2", "extra": {"deep": [1, 2]}}
        # the data may continue in further Resources (files): the per-file 'frame' counter then restarts at 0
        nres = rng.choice([1, 1, 2, 3, 4]) if style == "legacy" else 1
        nres = max(1, min(nres, n))
        bounds = sorted(rng.sample(range(1, n), nres - 1)) if nres > 1 else []
        group_start = [0] + bounds
        res_docs = {}
        res = None
        for k in range(n):
            if k in group_start:
                res = run.compose_resource(spec=spec, root="/tmp/data", resource_path=f"a/b{len(res_docs)}.h5",
                                           resource_kwargs=copy.deepcopy(rk))
                res_docs[k] = res.resource_doc
                first_of_group = k
            dk = {"frame": k - first_of_group} if style == "legacy" else {"point_number": k}
            datums.append(res.compose_datum(datum_kwargs=dk))
        docs.append(("resource", res_docs[0]))
    elif style == "current":
        sres = run.compose_stream_resource(mimetype="application/x-hdf5", uri="file://localhost/tmp/x.h5", data_key="img",
                                           parameters={"dataset": "/entry/data", "chunk_shape": [1, 2, 2]})
        docs.append(("stream_resource", sres.stream_resource_doc))
    for k in range(n):
        data = {"x": float(k) + 0.5}
        ts = {"x": 1.0 + k}
        filled = {}
        if reserved:
            data["time"] = 100.0 + k
            ts["time"] = 1.0
            if k % 2 == 0:
                filled["time"] = True   # (a 'filled' entry under a reserved name is renamed too - in a copy, not in the input)
        if style.startswith("legacy"):
            data["img"] = datums[k]["datum_id"]
            ts["img"] = 2.0
            filled["img"] = False
        if redesc_at is not None and k >= redesc_at:
            events.append(desc2.compose_event(data=data, timestamps=ts, filled=filled, seq_num=k + 1))
        else:
            events.append(desc.compose_event(data=data, timestamps=ts, filled=filled))
    body = []
    if style.startswith("legacy"):
        if packing == "pages":
            dpage = [("resource", res_docs[k]) for k in sorted(res_docs) if k] + [("datum_page", pack_datum_page(*datums))]
            epage = [("event_page", pack_event_page(*events))]
            body = dpage + epage if order == "datum-first" else epage + dpage
        else:
            for k in range(n):
                if k and k in res_docs:
                    body.append(("resource", res_docs[k]))
                if k == redesc_at:
                    body.append(("descriptor", desc2.descriptor_doc))
                pair = [("datum", datums[k]), ("event", events[k])]
                body += pair if order == "datum-first" else pair[::-1]
    else:
        if style == "current":
            for k in range(n):
                if k == redesc_at:
                    body.append(("descriptor", desc2.descriptor_doc))
                body.append(("event", events[k]))
                body.append(("stream_datum", sres.compose_stream_datum(indices={"start": k, "stop": k + 1})))
                body[-1][1]["descriptor"] = (desc2 if redesc_at is not None and k >= redesc_at else desc).descriptor_doc["uid"]
                body[-1][1]["seq_nums"] = {"start": k + 1, "stop": k + 2}
        else:
            body = [("event_page", pack_event_page(*events))] if packing == "pages" and events else [("event", e) for e in events]
            if redesc_at is not None:
                body.insert(redesc_at, ("descriptor", desc2.descriptor_doc))
    docs += body
    docs.append(("stop", run.compose_stop()))
    return docs, {"style": style, "order": order, "packing": packing, "reserved": reserved, "n": n,
                  "nres": len(res_docs) if style.startswith("legacy") else 0, "redescribed": redesc_at is not None}


def deep_equal(a, b):
    import numpy as np

    if isinstance(a, dict):
        return isinstance(b, dict) and a.keys() == b.keys() and all(deep_equal(a[k], b[k]) for k in a)  # (key order is not content)
    if isinstance(a, (list, tuple)):
        return type(a) is type(b) and len(a) == len(b) and all(deep_equal(x, y) for x, y in zip(a, b))
    if isinstance(a, np.ndarray):
        return isinstance(b, np.ndarray) and np.array_equal(a, b)
    return a == b


def first_diff(a, b, path="$"):
    if isinstance(a, dict) and isinstance(b, dict):
        for k in list(a.keys()) + [k for k in b if k not in a]:
            if k not in a or k not in b:
                return f"{path}.{k}"
            d = first_diff(a[k], b[k], f"{path}.{k}")
            if d:
                return d
        return None
    if isinstance(a, (list, tuple)) and isinstance(b, (list, tuple)) and len(a) == len(b):
        for i, (x, y) in enumerate(zip(a, b)):
            d = first_diff(x, y, f"{path}[{i}]")
            if d:
                return d
        return None
    return None if a == b else path


def run_case(case):
    from event_model import schema_validators

    out = []
    if case["kind"] == "norm":
        from bluesky.callbacks.tiled_writer import RunNormalizer

        for i in range(case["start"], case["start"] + case["count"]):
            rng = rng_for(case["seed"], "C35a", i)
            sub = {"kind": "norm", "start": i, "count": 1, "seed": case["seed"]}
            docs, info = build_run(rng)
            snaps = [copy.deepcopy(d) for _, d in docs]
            norm = RunNormalizer()
            emitted = []
            norm.subscribe(lambda name, doc: emitted.append((name, copy.deepcopy(doc))))
            problems = []
            counters = {"runs_normalized": 1, "inputs_snapshotted": len(docs), "emitted_validated": 0, "datums_converted": 0,
                        "backup_failure_points": 0, "datum_after_event_runs": int(info["order"] == "datum-after" and info["style"].startswith("legacy")),
                        "redescribed_legacy_frame_runs": int(info["redescribed"] and info["style"] == "legacy")}
            try:
                for name, d in docs:
                    norm(name, d)
            except Exception as e:  # noqa: BLE001
                problems.append((f"raises:{type(e).__name__}:{info['style']}", repr(e)[:200]))
            for (name, d), s in zip(docs, snaps):
                if not deep_equal(d, s):
                    where = first_diff(s, d) or "?"
                    field = where.split(".")[1] if "." in where else where
                    problems.append((f"input-{name}-mutated:{field}", f"{name} document changed at {where}"))
            if not any(p[0].startswith("raises") for p in problems):
                names = {k.name: v for k, v in schema_validators.items()}
                for name, d in emitted:
                    counters["emitted_validated"] += 1
                    try:
                        names[name].validate(d)
                    except Exception as e:  # noqa: BLE001
                        problems.append((f"emitted-{name}-schema-invalid", str(e)[:160]))
                        break
                # internal values preserved
                in_events = []
                for name, d in docs:
                    if name == "event":
                        in_events.append(d)
                    elif name == "event_page":
                        from event_model import unpack_event_page

                        in_events += list(unpack_event_page(d))
                out_events = {d["seq_num"]: d for n_, d in emitted if n_ == "event"}
                for ev in in_events:
                    oe = out_events.get(ev["seq_num"])
                    if oe is None:
                        problems.append(("event-lost", f"seq_num {ev['seq_num']}"))
                        break
                    for k, v in ev["data"].items():
                        if k == "img":
                            continue
                        kk = f"_{k}" if k in ("time", "seq_num") else k
                        if oe["data"].get(kk) != v:
                            problems.append(("internal-value-lost-or-changed", f"key {k}: {oe['data'].get(kk)!r} vs {v!r}"))
                            break
                if info["style"].startswith("legacy"):
                    sds = [d for n_, d in emitted if n_ == "stream_datum"]
                    for ev in in_events:
                        did = ev["data"]["img"]
                        match = [d for d in sds if d["uid"] == did]
                        counters["datums_converted"] += 1
                        if len(match) != 1:
                            problems.append((f"datum-became-{len(match)}-stream_datums:{info['order']}:{info['packing']}", f"datum {did}"))
                            break
                        sd = match[0]
                        sn = ev["seq_num"]
                        if (sd["seq_nums"]["start"], sd["seq_nums"]["stop"]) != (sn, sn + 1) or \
                                (sd["indices"]["start"], sd["indices"]["stop"]) != (sn - 1, sn):
                            problems.append((f"stream_datum-range-does-not-match-its-event:{info['style']}",
                                             f"event seq_num {sn}: indices {dict(sd['indices'])} seq_nums {dict(sd['seq_nums'])}"))
                            break
            key = f"{info['style']}|{info['order']}|{info['packing']}|reserved={info['reserved']}|n={info['n']}|redesc={info['redescribed']}"
            if problems:
                seen = set()
                for kd, detail in problems:
                    sig = f"C35:{kd}"
                    if sig in seen:
                        continue
                    seen.add(sig)
                    out.append(R("violated", key + "|" + kd, True, sig=sig, detail=f"{key}: {detail}", witness={"info": info},
                                 counters=counters, case=sub))
                    counters = {}
            else:
                out.append(R("held", key, True, counters=counters,
                             sample={"info": info, "input": [n_ for n_, _ in docs], "emitted": [n_ for n_, _ in emitted]}
                             if info["style"] == "legacy" and info["n"] <= 2 else None))
        return out
    # ---- conditional backup ---------------------------------------------------------------------------
    from bluesky.callbacks.tiled_writer import _ConditionalBackup

    for i in range(case["start"], case["start"] + case["count"]):
        rng = rng_for(case["seed"], "C35b", i)
        sub = {"kind": "backup", "start": i, "count": 1, "seed": case["seed"]}
        docs, info = build_run(rng)
        nb = rng.choice([1, 2])
        problems = []
        counters = {"backup_failure_points": 0}
        for k in range(len(docs)):
            recs = [[] for _ in range(nb)]
            seen_primary = []

            def primary(name, doc, k=k):
                seen_primary.append(name)
                if len(seen_primary) - 1 == k:
                    raise RuntimeError(f"primary failed at document {k}")

            cb = _ConditionalBackup(primary, [(lambda r: (lambda name, doc: r.append((name, id(doc)))))(r) for r in recs])
            for name, d in docs:
                cb(name, d)
            counters["backup_failure_points"] += 1
            exp = [(name, id(d)) for name, d in docs]
            for b, r in enumerate(recs):
                if r != exp:
                    kind = "lost" if len(r) < len(exp) else ("duplicated" if len(r) > len(exp) else "reordered")
                    pos = "first" if k == 0 else ("last" if k == len(docs) - 1 else "middle")
                    problems.append((f"backup-documents-{kind}:failure-at-{pos}", f"failure at {k}/{len(docs)}: backup {b} got {len(r)} docs, expected {len(exp)}"))
                    break
            if problems:
                break
        key = f"backup|len={len(docs)}|nb={nb}"
        if problems:
            kd, detail = problems[0]
            out.append(R("violated", key, True, sig=f"C35:{kd}", detail=detail, witness={"info": info}, counters=counters, case=sub))
        else:
            out.append(R("held", key, True, counters=counters, sample={"run_length": len(docs), "backups": nb, "failure_points": len(docs)} if i % 10 == 0 else None))
    return out
