"""C19 — callbacks see every document once, in order, and errors follow policy."""

from __future__ import annotations

from bluesky.utils import Msg

from vf.common import rng_for
from vf.devices import Det
from vf.oracles.common import quiet_logging
from vf.reh import Harness
from vf.worker import R

PROPERTY = "C19"
LEVEL = "exploration"
RULE = ("case = one RE(plan) call on an engine with 2..5 subscribed recording callbacks (name filters all/start/descriptor/"
        "event/stop), 0..2 of which raise at their k-th document and at most one other of which unsubscribes itself while handling its k-th document (it gets nothing afterwards, the others are unaffected), under ignore_callback_exceptions True or False; plans "
        "emit 1-2 runs with 1-4 events in 1-2 streams; one global invocation log; oracle: every callback receives every "
        "document of its kinds exactly once and in emission order, for one document callbacks are invoked in subscription "
        "order; ignoring: a raising callback changes nothing for the others and the call returns; strict: the call raises "
        "that very exception and the recorder (first subscriber) sees the open run closed with exit_status 'fail'; distinct "
        "= (#callbacks, filters, raising position, policy, plan shape)")
ASSUMPTIONS = ["a callback raising on the RunStop document itself under the strict policy is not judged (the stop is already "
               "composed)", "the harness recorder is the first subscriber"]
REQUIRED_COUNTERS = {"executions": 300, "deliveries_checked": 2500, "raising_ignored": 60, "raising_strict": 60,
                     "order_checks": 1500, "self_unsubscribes": 15}
MANIFEST = {
    "technique": "global invocation-log oracle (exactly-once, emission order, subscription order, error policy) on the real "
                 "dispatcher over seeded callback sets and raising positions",
    "category": "exploration",
    "text": "Seeded sets of recording callbacks, some raising at a chosen document, are subscribed under both exception "
            "policies; the single invocation log is checked for exactly-once delivery, ordering and the documented effect "
            "of the exception.",
    "note": "Sampled callback sets and plans.",
    "design_ref": "4 (C19)",
}


class Boom(Exception):
    pass


def worker_init(tier, seed):
    quiet_logging()


def gen_cases(tier, seed):
    n = 400 if tier == "quick" else 6000
    return [{"start": s, "count": 20, "seed": seed} for s in range(0, n, 20)]


def run_case(case):
    out = []
    for i in range(case["start"], case["start"] + case["count"]):
        rng = rng_for(case["seed"], "C19", i)
        sub = {"start": i, "count": 1, "seed": case["seed"]}
        h = Harness()
        RE = h.RE
        ignore = rng.random() < 0.5
        RE.ignore_callback_exceptions = ignore
        det, det2 = Det("det", h.log, delay=None), Det("det2", h.log, delay=None)
        inv = []     # (callback idx, doc name, uid)
        ncb = rng.randint(2, 5)
        filters = [rng.choice(["all", "all", "event", "start", "stop", "descriptor"]) for _ in range(ncb)]
        raise_at = {}
        for c in rng.sample(range(ncb), k=rng.choice([0, 1, 1, 2]) if ncb >= 2 else 0):
            raise_at[c] = rng.randint(1, 4)
        thrown = {}
        # one non-raising callback may unsubscribe ITSELF while handling its k-th document
        unsub_at = {}
        if rng.random() < 0.25:
            cands = [c for c in range(ncb) if c not in raise_at]
            if cands:
                unsub_at[rng.choice(cands)] = rng.randint(1, 4)
        tokens = {}

        def exp_for(c, docs_):
            exp = [(n, d.get("uid")) for n, d in docs_ if filters[c] in ("all", n)]
            return exp[:unsub_at[c]] if c in unsub_at else exp

        def mk(idx):
            count = [0]

            def cb(name, doc):
                inv.append((idx, name, doc.get("uid")))
                count[0] += 1
                if unsub_at.get(idx) == count[0]:
                    RE.unsubscribe(tokens[idx])
                if raise_at.get(idx) == count[0]:
                    e = Boom(f"cb{idx} at its document #{count[0]} ({name})")
                    thrown[idx] = (e, name, doc.get("uid"))
                    raise e
            return cb

        for c in range(ncb):
            tokens[c] = RE.subscribe(mk(c), filters[c])
        nruns = rng.choice([1, 1, 2])
        nev = rng.randint(1, 4)
        two_streams = rng.random() < 0.4

        def plan():
            for _ in range(nruns):
                yield Msg("open_run")
                for k in range(nev):
                    yield Msg("create", name="primary")
                    yield Msg("read", det)
                    yield Msg("save")
                    if two_streams and k % 2 == 0:
                        yield Msg("create", name="aux")
                        yield Msg("read", det2)
                        yield Msg("save")
                yield Msg("close_run")

        res = h.call("RE", RE, plan())
        h.close()
        docs = h.docs()
        problems = []
        counters = {"executions": 1, "deliveries_checked": 0, "raising_ignored": 0, "raising_strict": 0, "order_checks": 0,
                    "self_unsubscribes": 0}
        raised_any = bool(thrown)
        first_raise_doc = None
        if thrown:
            # the first exception in invocation order
            pos = {idx: next(j for j, x in enumerate(inv) if x[0] == idx and (x[1], x[2]) == (t[1], t[2])) for idx, t in thrown.items()}
            first_idx = min(pos, key=pos.get)
            first_raise_doc = thrown[first_idx]
        on_stop = any(t[1] == "stop" for t in thrown.values())
        if ignore:
            counters["raising_ignored"] = int(raised_any)
            if res[0] != "ret":
                problems.append((f"ignored-callback-exception-ended-the-call:{type(res[1]).__name__}", repr(res[1])))
            for c in range(ncb):
                exp = exp_for(c, docs)
                got = [(n, u) for (k, n, u) in inv if k == c]
                counters["deliveries_checked"] += len(exp)
                counters["self_unsubscribes"] += int(c in unsub_at and len(got) >= unsub_at[c])
                if got != exp:
                    kind = "missing" if len(got) < len(exp) else ("duplicated" if len(got) > len(exp) else "reordered")
                    problems.append((f"delivery-{kind}:{'raiser' if c in raise_at else 'bystander'}",
                                     f"callback {c} ({filters[c]}): got {len(got)} docs, expected {len(exp)}; raisers {sorted(raise_at)}"))
            # per document: subscription order
            by_doc = {}
            for (k, n, u) in inv:
                by_doc.setdefault((n, u), []).append(k)
            for key_, ks in by_doc.items():
                counters["order_checks"] += 1
                if ks != sorted(ks):
                    problems.append(("callbacks-not-in-subscription-order", f"document {key_[0]}: invoked {ks}"))
                    break
        else:
            counters["raising_strict"] = int(raised_any)
            if raised_any and not on_stop:
                e0 = first_raise_doc[0]
                if res[0] != "exc" or res[1] is not e0:
                    problems.append(("strict-policy-did-not-raise-the-callback-exception", f"call ended {res[0]}: {res[1]!r}; callback raised {e0!r}"))
                stops = [d for n, d in docs if n == "stop"]
                # the run open when the callback raised must be closed as failed
                failed = [d for d in stops if d["exit_status"] == "fail"]
                if not failed:
                    problems.append(("run-not-closed-as-failed", f"stops: {[d['exit_status'] for d in stops]}"))
                starts = [d for n, d in docs if n == "start"]
                if len(stops) != len(starts):
                    problems.append(("run-left-open-after-callback-exception", f"{len(starts)} starts {len(stops)} stops"))
            elif not raised_any:
                if res[0] != "ret":
                    problems.append((f"call-failed:{type(res[1]).__name__}", repr(res[1])))
                for c in range(ncb):
                    exp = exp_for(c, docs)
                    got = [(n, u) for (k, n, u) in inv if k == c]
                    counters["deliveries_checked"] += len(exp)
                    counters["self_unsubscribes"] += int(c in unsub_at and len(got) >= unsub_at[c])
                    if got != exp:
                        problems.append(("delivery-differs", f"callback {c}: {len(got)} vs {len(exp)}"))
            # nobody sees a document twice even on the failure path
            seen = set()
            for x in inv:
                if x in seen:
                    problems.append(("document-delivered-twice", f"{x}"))
                    break
                seen.add(x)
            by_doc = {}
            for (k, n, u) in inv:
                by_doc.setdefault((n, u), []).append(k)
            for key_, ks in by_doc.items():
                counters["order_checks"] += 1
                if ks != sorted(ks):
                    problems.append(("callbacks-not-in-subscription-order", f"document {key_[0]}: invoked {ks}"))
                    break
        key = f"n={ncb}|{sorted(set(filters))}|raise={sorted(raise_at.items())}|ignore={ignore}|runs={nruns}x{nev}{'+aux' if two_streams else ''}"
        if problems:
            seen_s = set()
            for kd, detail in problems:
                sig = f"C19:{kd}:{'ignore' if ignore else 'strict'}"
                if sig in seen_s:
                    continue
                seen_s.add(sig)
                out.append(R("violated", key + "|" + kd, True, sig=sig, detail=f"{key}: {detail}",
                             witness={"filters": filters, "raise_at": raise_at, "ignore": ignore, "invocations": inv[:60]},
                             counters=counters, case=sub))
                counters = {}
        else:
            out.append(R("held", key, raised_any, counters=counters,
                         sample={"filters": filters, "raise_at": {str(k): v for k, v in raise_at.items()}, "ignore": ignore,
                                 "invocations": inv[:24]} if raised_any and ncb <= 3 else None))
    return out
