"""C45 — collected stream assets line up with the stream's event numbering."""

from __future__ import annotations

from bluesky.utils import Msg

from vf.common import rng_for
from vf.oracles.common import quiet_logging
from vf.oracles.docs import check_stream
from vf.devices import StreamDet
from vf.reh import Harness
from vf.worker import R

PROPERTY = "C45"
LEVEL = "exploration"
RULE = ("case = one RunEngine execution with 1-3 fake detectors that write stream assets (WritesStreamAssets + Collectable), "
        "pre-declared into one stream and collected together 1..6 times, with checkpoints, repeated declare_stream (fresh descriptor) and plan-requested pauses (resumed: rewind + replay) in between; between collects every detector's frame counter "
        "advances by a scripted amount (0..5, different per detector), so the joint collect must stop at the minimum; "
        "oracle: per data key the stream_datum indices tile [0, n) and their seq_nums tile [1, n+1) in order; after each "
        "joint collect all detectors' ranges end at min(get_index); RunStop num_events[stream] == n; C01 stream oracle; "
        "distinct = (#detectors, progression shape, #collects)")
ASSUMPTIONS = ["the fake detectors emit one stream_resource at their first collect and one stream_datum per collect covering "
               "[last emitted, requested index)"]
REQUIRED_COUNTERS = {"executions": 200, "collects": 600, "stream_datums_checked": 800, "multi_detector_runs": 100,
                     "lagging_detector_collects": 100, "pauses_resumed": 60, "redeclared_streams": 60}
MANIFEST = {
    "technique": "document oracle (index / seq_num tiling, common minimum index, num_events) on real collect() executions "
                 "with scripted stream-asset fakes",
    "category": "exploration",
    "text": "Fake stream-writing detectors with scripted, diverging frame counters are collected jointly by the real "
            "engine; the emitted stream_datum ranges and the RunStop are checked for contiguity, the common minimum and "
            "the declared frame count.",
    "note": "Sampled progressions; fakes follow the WritesStreamAssets protocol.",
    "design_ref": "7 (C45)",
}


def worker_init(tier, seed):
    quiet_logging()


def gen_cases(tier, seed):
    n = 240 if tier == "quick" else 4000
    return [{"start": s, "count": 12, "seed": seed} for s in range(0, n, 12)]


def run_case(case):
    out = []
    for i in range(case["start"], case["start"] + case["count"]):
        rng = rng_for(case["seed"], "C45", i)
        sub = {"start": i, "count": 1, "seed": case["seed"]}
        h = Harness()
        nd = rng.randint(1, 3)
        dets = [StreamDet(f"d{k}", h.log) for k in range(nd)]
        ncol = rng.randint(1, 6)
        prog = [[rng.choice([0, 1, 1, 2, 3, 5]) for _ in range(nd)] for _ in range(ncol)]
        mins = []
        # between two collects: nothing / a checkpoint / the stream declared again (fresh descriptor) / a pause requested by
        # the plan (resumed by the caller: the engine rewinds to the last checkpoint and replays the collects since then)
        between = [rng.choice(["", "", "checkpoint", "checkpoint", "redeclare", "pause", "redeclare+pause"]) for _ in range(ncol)]

        def plan():
            yield Msg("open_run")
            yield Msg("declare_stream", None, *dets, name="main", collect=True)
            yield Msg("checkpoint")
            for step, extra in zip(prog, between):
                for d, inc in zip(dets, step):
                    d.written += inc
                mins.append(min(d.written for d in dets))
                yield Msg("collect", *dets, name="main")
                if extra == "checkpoint":
                    yield Msg("checkpoint")
                if "redeclare" in extra:
                    yield Msg("declare_stream", None, *dets, name="main", collect=True)
                if "pause" in extra:
                    yield Msg("pause")
            yield Msg("close_run")

        res = h.call("RE", h.RE, plan())
        npause = 0
        while str(h.RE.state) == "paused" and npause < 10:
            npause += 1
            res = h.call("resume", h.RE.resume)
        h.close()
        docs = h.docs()
        problems = []
        counters = {"executions": 1, "collects": ncol, "stream_datums_checked": 0, "multi_detector_runs": int(nd > 1), "pauses_resumed": npause,
                    "redeclared_streams": sum(1 for b in between if "redeclare" in b),
                    "lagging_detector_collects": sum(1 for step_i, step in enumerate(prog) if nd > 1 and len({sum(p[k] for p in prog[:step_i + 1]) for k in range(nd)}) > 1)}
        if res[0] != "ret":
            problems.append((f"collect-failed:{type(res[1]).__name__}", repr(res[1])[:200]))
        else:
            p1, _, _ = check_stream(docs, engine_idle=True, validate=True)
            problems += [(f"stream:{k}", d) for k, d in p1]
            n_final = mins[-1] if mins else 0
            by_res = {}
            for n, d in docs:
                if n == "stream_datum":
                    by_res.setdefault(d["stream_resource"], []).append(d)
            for det in dets:
                lst = by_res.get(f"{det.name}-res", [])
                counters["stream_datums_checked"] += len(lst)
                pos = 0
                for d in lst:
                    i0, i1 = d["indices"]["start"], d["indices"]["stop"]
                    s0, s1 = d["seq_nums"]["start"], d["seq_nums"]["stop"]
                    if i0 != pos:
                        problems.append(("indices-not-contiguous", f"{det.name}: datum starts at {i0}, previous stop {pos}"))
                    if (s0, s1) != (i0 + 1, i1 + 1):
                        problems.append(("seq_nums-not-aligned-with-indices", f"{det.name}: indices [{i0},{i1}) seq_nums [{s0},{s1})"))
                    pos = i1
                if pos != n_final:
                    problems.append((f"detector-range-ends-at-{'more' if pos > n_final else 'less'}-than-the-common-minimum",
                                     f"{det.name}: emitted up to {pos}, common minimum {n_final}; progression {prog}"))
            stop = next((d for n, d in docs if n == "stop"), None)
            if stop is not None and stop.get("num_events", {}).get("main", 0) != n_final:
                problems.append(("num_events-differs-from-frames-declared", f"num_events {stop.get('num_events')} frames {n_final}"))
            # at every joint collect (also a replayed one) all detectors were asked for the same index: the minimum of what
            # they had reported in that collect
            if nd > 1:
                cur_idx, cur_asks = [], []
                def close_group():
                    if cur_asks and (len(set(cur_asks)) != 1 or (len(cur_idx) == nd and cur_asks[0] != min(cur_idx))):
                        problems.append(("detectors-not-collected-to-the-common-minimum",
                                         f"reported {cur_idx}, asked {cur_asks}"))
                for e in h.log:
                    if e[0] == "msg" and e[1].command == "collect":
                        close_group()
                        cur_idx, cur_asks = [], []
                    elif e[0] == "dev" and e[2] == "get_index":
                        cur_idx.append(e[3])
                    elif e[0] == "dev" and e[2] == "collect_asset_docs":
                        cur_asks.append(e[3])
                close_group()
        key = f"dets={nd}|collects={ncol}|final={mins[-1] if mins else 0}"
        if problems:
            seen = set()
            for kd, detail in problems:
                sig = f"C45:{kd}"
                if sig in seen:
                    continue
                seen.add(sig)
                out.append(R("violated", key + "|" + kd, True, sig=sig, detail=detail, witness={"progression": prog, "detectors": nd},
                             counters=counters, case=sub))
                counters = {}
        else:
            out.append(R("held", key, ncol >= 2, counters=counters,
                         sample={"detectors": nd, "progression": prog, "minimum_after_each_collect": mins} if nd >= 2 and ncol >= 3 else None))
    return out
