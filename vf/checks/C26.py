"""C26 — snaked grids are a continuous back-and-forth ordering of the full grid.

Monitor: reference-model differential. The real ``snake_cyclers`` (also reached through
``outer_product`` / ``outer_list_product``) is called on every (lengths, flags) vector of a bounded
space (exhaustive) plus seeded larger ones; its output is compared with an independent odometer
model and checked for the permutation and continuity clauses directly.
"""

from __future__ import annotations

import itertools

from vf.common import chunked, rng_for
from vf.worker import R

PROPERTY = "C26"
LEVEL = "exploration"
RULE = ("case = (axis lengths, snake flag vector, entry point in {snake_cyclers, outer_product, outer_list_product}); "
        "exhaustive over <=3 axes x lengths 1..4 x all flags (quick) / <=4 axes (+5 axes x lengths 1..3) (thorough), plus "
        "seeded random cases up to 6 axes x length 7; every call is made twice with the same argument objects (the second result must equal the first); distinct = distinct (lengths, flags, entry); non-trivial = "
        ">=2 axes with product >= 2 and at least one snaked non-first axis")
ASSUMPTIONS = ["odometer reference model (vf/checks/C26.py:odometer) is the documented snaking order",
               "cycler library iteration order is the row order of the combined trajectory"]
REQUIRED_COUNTERS = {"snaked_cases": 10, "via_outer_product": 5, "via_outer_list_product": 5}
EXHAUSTIVE = {"quick": "axes<=3, lengths 1..4, all flag vectors", "thorough": "axes<=4 lengths 1..4; axes=5 lengths 1..3"}
MANIFEST = {
    "technique": "reference-model differential (odometer) + permutation/continuity oracle on real snake_cyclers output",
    "category": "exploration",
    "text": "Every length/flag vector up to the bound is executed through the real snake_cyclers (and both public "
            "wrappers) and compared point-by-point with an independent odometer model; exhaustive in the bounded space, "
            "sampled beyond. Right level because the property is a pure function of small integer vectors.",
    "note": "Trusts the odometer model and the cycler package; bounded to <=6 axes.",
    "design_ref": "6 (C26)",
}


def odometer(lengths, flags):
    """Reference: row-major product where every snaked axis reverses each time a slower axis advances."""
    n = len(lengths)
    idx = [0] * n
    direction = [1] * n
    total = 1
    for k in lengths:
        total *= k
    out = []
    for _ in range(total):
        out.append(tuple(idx))
        # advance
        i = n - 1
        while i >= 0:
            nxt = idx[i] + direction[i]
            if 0 <= nxt < lengths[i]:
                idx[i] = nxt
                break
            i -= 1
        if i < 0:
            break
        for j in range(i + 1, n):
            if flags[j] and j > 0:
                direction[j] = -direction[j]
            else:
                idx[j] = 0
                direction[j] = 1
    return out


def gen_cases(tier, seed):
    vecs = []
    maxn = 3 if tier == "quick" else 4
    for n in range(1, maxn + 1):
        for lengths in itertools.product(range(1, 5), repeat=n):
            for flags in itertools.product([False, True], repeat=n):
                vecs.append((list(lengths), list(flags)))
    if tier == "thorough":
        for lengths in itertools.product(range(1, 4), repeat=5):
            for flags in itertools.product([False, True], repeat=5):
                vecs.append((list(lengths), list(flags)))
    rng = rng_for(seed, "C26")
    nrand = 150 if tier == "quick" else 1500
    for _ in range(nrand):
        n = rng.randint(2, 6)
        while True:
            lengths = [rng.randint(1, 7) for _ in range(n)]
            p = 1
            for k in lengths:
                p *= k
            if p <= 20000:
                break
        flags = [rng.random() < 0.6 for _ in range(n)]
        vecs.append((lengths, flags))
    cases = []
    for i, ch in enumerate(chunked(vecs, 60)):
        cases.append({"vecs": ch, "entry": ["snake_cyclers", "outer_product", "outer_list_product"][i % 3]})
    return cases


def _observed(lengths, flags, entry):
    from cycler import cycler

    from bluesky.plan_patterns import outer_list_product, outer_product
    from bluesky.utils import snake_cyclers

    names = [f"a{i}" for i in range(len(lengths))]
    if entry == "snake_cyclers":
        cyclers = [cycler(nm, [i * 100 + j for j in range(k)]) for i, (nm, k) in enumerate(zip(names, lengths))]
        fl = list(flags)
        call = lambda: snake_cyclers(cyclers, fl)  # noqa: E731
        conv = lambda i, v: int(v) - i * 100  # noqa: E731
    elif entry == "outer_list_product":
        args = []
        for i, (nm, k) in enumerate(zip(names, lengths)):
            args += [nm, [i * 100 + j for j in range(k)]]
        snake_axes = [nm for nm, f in zip(names, flags) if f]
        call = lambda: outer_list_product(args, snake_axes if snake_axes else False)  # noqa: E731
        conv = lambda i, v: int(v) - i * 100  # noqa: E731
    else:
        # outer_product needs "movable" motors: objects with set/read/... -> use tiny stand-ins
        motors = [_M(nm) for nm in names]
        args = []
        for i, (m, k) in enumerate(zip(motors, lengths)):
            # linspace(0, k-1, k) = 0..k-1 exactly
            args += [m, 0.0, float(max(k - 1, 0)), k]
            if i > 0:
                args.append(bool(flags[i]))
        call = lambda: outer_product(args)  # noqa: E731
        names = motors
        conv = lambda i, v: int(round(float(v)))  # noqa: E731
    # the same argument objects are passed twice: a pattern function must not consume or edit what it was given
    both = []
    for _ in range(2):
        rows = []
        for row in call():
            rows.append(tuple(conv(i, row[nm]) for i, nm in enumerate(names)))
        both.append(rows)
    return both


class _M:
    def __init__(self, name):
        self.name = name
        self.parent = None
        self.position = 0

    def set(self, v):
        raise NotImplementedError

    def read(self):
        return {}

    def describe(self):
        return {}

    def stop(self, success=True):
        pass

    def __repr__(self):
        return self.name


def run_case(case):
    entry = case["entry"]
    out = []
    for lengths, flags in case["vecs"]:
        n = len(lengths)
        total = 1
        for k in lengths:
            total *= k
        snaked = any(flags[1:]) and total >= 2 and n >= 2
        key = f"{entry}|{lengths}|{[int(f) for f in flags]}"
        counters = {"snaked_cases": int(snaked), "via_" + entry: 1}
        try:
            got, got2 = _observed(lengths, flags, entry)
        except Exception as e:  # noqa: BLE001
            out.append(R("violated", key, snaked, sig=f"C26:raises:{type(e).__name__}:{entry}", detail=repr(e),
                         witness={"lengths": lengths, "flags": flags, "entry": entry}, counters=counters,
                         case={"vecs": [[lengths, flags]], "entry": entry}))
            continue
        exp = odometer(lengths, flags)
        problem = None
        if sorted(got) != sorted(itertools.product(*[range(k) for k in lengths])):
            problem = "not-a-permutation-of-product"
        elif got != exp:
            problem = "order-differs-from-odometer"
        elif got2 != got:
            problem = "second-call-with-the-same-arguments-differs"
            got = got2
        else:
            # continuity clause, checked directly on the output
            for a, b in zip(got, got[1:]):
                changed = [i for i in range(n) if a[i] != b[i]]
                slowest = changed[0]
                for i in changed[1:]:
                    if flags[i] and i > 0:
                        problem = "snaked-axis-jumped"
                for i in range(slowest + 1, n):
                    if flags[i] and i > 0 and a[i] != b[i]:
                        problem = "snaked-axis-jumped"
        if problem:
            r = R("violated", key, snaked, sig=f"C26:{problem}:{entry}",
                  detail=f"lengths={lengths} flags={flags} got[:12]={got[:12]} exp[:12]={exp[:12]}",
                  witness={"lengths": lengths, "flags": flags, "entry": entry, "got": got[:40], "expected": exp[:40]},
                  counters=counters)
            r["case"] = {"vecs": [[lengths, flags]], "entry": entry}
            out.append(r)
        else:
            out.append(R("held", key, snaked, counters=counters,
                         sample={"entry": entry, "lengths": lengths, "flags": flags, "trajectory_head": got[:8]}
                         if snaked and total > 6 else None))
    return out
