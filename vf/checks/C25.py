"""C25 — step scans visit exactly the documented trajectory."""

from __future__ import annotations

import itertools

from vf.common import jsonable, rng_for
from vf.devices import Det, Motor
from vf.oracles.common import quiet_logging
from vf.reh import Harness
from vf.worker import R

PROPERTY = "C25"
LEVEL = "exploration"
RULE = ("case = one real-RunEngine execution on immediate fakes of scan / inner_product_scan / list_scan / grid_scan (both "
        "argument patterns, snake_axes True / False / list, per-motor snake flags) / list_grid_scan / scan_nd / log_scan / "
        "x2x_scan with seeded inputs: 1-4 motors, nums 1-7, starts/stops incl. negative and reversed, position lists, "
        "initial positions; observed = the motor positions at every 'save'; expected built independently (numpy.linspace/"
        "logspace, zip, itertools.product + an odometer for snaking); also: exactly one checkpoint and one create/save per "
        "point, and the RunStart's num_points / shape / extents / snaking equal what was done; distinct = (plan, #motors, "
        "nums, snake pattern)")
ASSUMPTIONS = ["positions compared with tolerance 1e-12 relative (the plans use numpy.linspace themselves)",
               "fake motors arrive instantly; a set that is skipped because the position is unchanged is equivalent"]
REQUIRED_COUNTERS = {"executions": 300, "points_checked": 1200, "snaked_grids": 30, "metadata_checks": 300,
                     "multi_motor_inner": 40}
MANIFEST = {
    "technique": "trajectory oracle (independent expected point list vs motor positions at every save) + metadata "
                 "consistency check on real plan executions over seeded scan inputs",
    "category": "exploration",
    "text": "Every built-in step scan is executed on the real engine with seeded motor counts, ranges, lists and snaking; "
            "the visited positions, per-point checkpoint/bundle structure and the recorded num_points/shape/extents/"
            "snaking are compared with independently computed expectations.",
    "note": "Sampled inputs; up to 4 motors and 7 points per axis.",
    "design_ref": "5 (C25)",
}
PLANS = ["scan", "inner_product_scan", "list_scan", "grid_scan", "grid_scan_old", "list_grid_scan", "scan_nd", "log_scan",
         "x2x_scan"]


def worker_init(tier, seed):
    quiet_logging()


def gen_cases(tier, seed):
    n = 360 if tier == "quick" else 6000
    return [{"start": s, "count": 18, "seed": seed} for s in range(0, n, 18)]


def odometer(lengths, flags):
    n = len(lengths)
    idx, direction = [0] * n, [1] * n
    total = 1
    for k in lengths:
        total *= k
    out = []
    for _ in range(total):
        out.append(tuple(idx))
        i = n - 1
        while i >= 0:
            nxt = idx[i] + direction[i]
            if 0 <= nxt < lengths[i]:
                idx[i] = nxt
                break
            i -= 1
        if i < 0:
            break
        for j in range(i + 1, n):
            if flags[j] and j > 0:
                direction[j] = -direction[j]
            else:
                idx[j], direction[j] = 0, 1
    return out


def run_case(case):
    import numpy as np
    from cycler import cycler

    import bluesky.plans as bp

    out = []
    for i in range(case["start"], case["start"] + case["count"]):
        rng = rng_for(case["seed"], "C25", i)
        sub = {"start": i, "count": 1, "seed": case["seed"]}
        pname = PLANS[i % len(PLANS)]
        h = Harness()
        nm = rng.randint(1, 4) if pname not in ("log_scan",) else 1
        if pname == "x2x_scan":
            nm = 2
        if pname in ("grid_scan", "grid_scan_old", "list_grid_scan"):
            nm = rng.randint(1, 3)
        motors = [Motor(f"m{k}", h.log, delay=None, pos=rng.choice([0.0, 1.5, -3.0])) for k in range(nm)]
        init = [m.position for m in motors]
        det = Det("det", h.log, delay=None, motors=motors)
        num = rng.randint(1, 7)
        ranges = [(rng.choice([-2.0, 0.0, 1.0, 5.5]), rng.choice([-1.0, 0.5, 3.0, 10.0])) for _ in range(nm)]
        lists = [[round(rng.uniform(-5, 5), 3) for _ in range(num)] for _ in range(nm)]
        nums = [rng.randint(1, 4) for _ in range(nm)]
        glists = [[round(rng.uniform(-5, 5), 3) for _ in range(nums[k])] for k in range(nm)]
        shape_kind = rng.choice(["plain", "plain", "plain", "repeats", "fine"])
        if shape_kind == "repeats":
            # consecutive identical points (the scan still takes a checkpointed reading at each of them)
            ranges = [(a, a) if rng.random() < 0.7 else (a, b) for a, b in ranges]
            lists = [[lst[j // 2] for j in range(num)] for lst in lists]
            glists = [[lst[j // 2] for j in range(len(lst))] for lst in glists]
        elif shape_kind == "fine":
            # steps that are tiny relative to the absolute position
            ranges = [(8000.0 + a, 8000.0 + a + 0.004 * (b - a)) for a, b in ranges]
            lists = [[8000.0 + 1e-3 * v for v in lst] for lst in lists]
            glists = [[-5000.0 + 1e-3 * v for v in lst] for lst in glists]
        snake_flags = [False] + [rng.random() < 0.6 for _ in range(nm - 1)]
        expected = None
        exp_md = {}
        try:
            if pname in ("scan", "inner_product_scan"):
                args = []
                for m, (a, b) in zip(motors, ranges):
                    args += [m, a, b]
                plan = bp.scan([det], *args, num=num) if pname == "scan" else bp.inner_product_scan([det], num, *args)
                cols = [np.linspace(a, b, num) for (a, b) in ranges]
                expected = list(zip(*cols))
                exp_md = {"num_points": num}
            elif pname == "list_scan":
                args = []
                for m, l in zip(motors, lists):
                    args += [m, l]
                plan = bp.list_scan([det], *args)
                expected = list(zip(*lists))
                exp_md = {"num_points": num}
            elif pname in ("grid_scan", "grid_scan_old"):
                args = []
                for k, (m, (a, b)) in enumerate(zip(motors, ranges)):
                    args += [m, a, b, nums[k]]
                    if pname == "grid_scan_old" and k > 0:
                        args.append(snake_flags[k])
                if pname == "grid_scan":
                    mode = rng.choice(["flags-list", "true", "false"])
                    if mode == "true":
                        snake_flags = [False] + [True] * (nm - 1)
                        plan = bp.grid_scan([det], *args, snake_axes=True)
                    elif mode == "false":
                        snake_flags = [False] * nm
                        plan = bp.grid_scan([det], *args, snake_axes=False)
                    else:
                        plan = bp.grid_scan([det], *args, snake_axes=[m for m, f in zip(motors, snake_flags) if f])
                else:
                    plan = bp.grid_scan([det], *args)
                axes = [np.linspace(a, b, nums[k]) for k, (a, b) in enumerate(ranges)]
                expected = [tuple(axes[k][ix[k]] for k in range(nm)) for ix in odometer(nums, snake_flags)]
                exp_md = {"num_points": len(expected), "shape": tuple(nums), "extents": tuple([a, b] for a, b in ranges),
                          "snaking": tuple(bool(f) for f in snake_flags)}
            elif pname == "list_grid_scan":
                args = []
                for m, l in zip(motors, glists):
                    args += [m, l]
                mode = rng.choice(["flags-list", "true", "false"])
                if mode == "true":
                    snake_flags = [False] + [True] * (nm - 1)
                    plan = bp.list_grid_scan([det], *args, snake_axes=True)
                elif mode == "false":
                    snake_flags = [False] * nm
                    plan = bp.list_grid_scan([det], *args, snake_axes=False)
                else:
                    plan = bp.list_grid_scan([det], *args, snake_axes=[m for m, f in zip(motors, snake_flags) if f])
                expected = [tuple(glists[k][ix[k]] for k in range(nm)) for ix in odometer(nums, snake_flags)]
                exp_md = {"num_points": len(expected), "shape": tuple(nums),
                          "extents": tuple([min(l), max(l)] for l in glists)}
            elif pname == "scan_nd":
                cyc = None
                for m, l in zip(motors, lists):
                    c = cycler(m, l)
                    cyc = c if cyc is None else cyc + c
                if nm >= 2 and rng.random() < 0.5:
                    # outer product of the first motor with the zipped rest
                    first = cycler(motors[0], glists[0])
                    rest = None
                    for m, l in zip(motors[1:], lists[1:]):
                        c = cycler(m, l)
                        rest = c if rest is None else rest + c
                    cyc = first * rest
                    expected = [(a,) + tuple(l[j] for l in lists[1:]) for a in glists[0] for j in range(num)]
                else:
                    expected = list(zip(*lists))
                plan = bp.scan_nd([det], cyc)
                exp_md = {"num_points": len(expected)}
            elif pname == "log_scan":
                a, b = rng.choice([(0.0, 2.0), (-1.0, 1.0), (1.0, 3.0)])
                plan = bp.log_scan([det], motors[0], a, b, num)
                expected = [(v,) for v in np.logspace(a, b, num)]
                exp_md = {"num_points": num}
            else:
                a, b = ranges[0]
                plan = bp.x2x_scan([det], motors[0], motors[1], a, b, num)
                c0 = init[0] + np.linspace(a, b, num)
                c1 = init[1] + np.linspace(a / 2, b / 2, num)
                expected = list(zip(c0, c1))
                exp_md = {"num_points": num}
        except Exception as e:  # noqa: BLE001
            out.append(R("inconclusive", pname, detail=f"harness could not build the plan: {e!r}"))
            h.close()
            continue
        res = h.call("RE", h.RE, plan)
        h.close()
        log = h.log
        problems = []
        counters = {"executions": 1, "points_checked": 0, "snaked_grids": int(pname in ("grid_scan", "grid_scan_old", "list_grid_scan") and any(snake_flags[1:])),
                    "metadata_checks": 0, "multi_motor_inner": int(pname in ("scan", "inner_product_scan", "list_scan") and nm >= 2)}
        if res[0] != "ret":
            problems.append((f"plan-failed:{type(res[1]).__name__}", repr(res[1])))
        # observed positions at each save: replay the ledger
        pos = {m.name: p for m, p in zip(motors, init)}
        observed = []
        cps = 0
        structure_ok = True
        since = {"checkpoint": 0, "create": 0}
        for e in log:
            if e[0] == "dev" and e[2] == "set" and e[1] in pos:
                pos[e[1]] = e[3]
            elif e[0] == "msg" and e[1].command == "checkpoint":
                since["checkpoint"] += 1
            elif e[0] == "msg" and e[1].command == "create":
                since["create"] += 1
            elif e[0] == "msg" and e[1].command == "save":
                observed.append(tuple(float(pos[m.name]) for m in motors))
                if since["checkpoint"] != 1 or since["create"] != 1:
                    structure_ok = False
                    problems.append(("point-structure", f"point {len(observed) - 1}: {since['checkpoint']} checkpoint(s), {since['create']} create(s)"))
                since = {"checkpoint": 0, "create": 0}
        if expected is not None and not problems:
            counters["points_checked"] = len(expected)
            if len(observed) != len(expected):
                problems.append((f"number-of-points:{len(observed)}-vs-{len(expected)}", f"{pname}"))
            else:
                for k, (o, x) in enumerate(zip(observed, expected)):
                    if any(abs(a - float(b)) > 1e-12 * max(1.0, abs(float(b))) for a, b in zip(o, x)):
                        problems.append(("wrong-position", f"{pname} point {k}: at {o}, documented {tuple(float(v) for v in x)}"))
                        break
        st = next((e[2] for e in log if e[0] == "doc" and e[1] == "start"), None)
        if st is not None and not problems:
            counters["metadata_checks"] = 1
            for kk, vv in exp_md.items():
                got = st.get(kk)
                if kk in ("shape", "snaking"):
                    ok = got is not None and tuple(got) == tuple(vv)
                elif kk == "extents":
                    ok = got is not None and [list(map(float, x)) for x in got] == [list(map(float, x)) for x in vv]
                else:
                    ok = got == vv
                if not ok:
                    problems.append((f"metadata-{kk}-inconsistent", f"{pname}: RunStart {kk}={got!r}, executed {vv!r}"))
        key = f"{pname}|motors={nm}|num={num if 'grid' not in pname else nums}|snake={[int(f) for f in snake_flags] if 'grid' in pname else '-'}"
        if problems:
            seen = set()
            for kd, detail in problems:
                sig = f"C25:{pname}:{kd}"
                if sig in seen:
                    continue
                seen.add(sig)
                out.append(R("violated", key + "|" + kd, True, sig=sig, detail=detail,
                             witness={"plan": pname, "observed": jsonable(observed[:20]), "expected": jsonable([tuple(map(float, x)) for x in (expected or [])][:20])},
                             counters=counters, case=sub))
                counters = {}
        else:
            out.append(R("held", key, len(observed) >= 2, counters=counters,
                         sample={"plan": pname, "motors": nm, "trajectory": jsonable(observed[:8])}
                         if "grid" in pname and any(snake_flags[1:]) and len(observed) > 4 else None))
    return out
