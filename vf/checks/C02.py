"""C02 — exit status, reason and raised exception reflect how the run ended."""

from __future__ import annotations

from bluesky.utils import FailedStatus, RunEngineInterrupted

from vf import sweepcheck
from vf.devices import Fault
from vf.oracles.common import landing_info, outcome_class, spec_json
from vf.sweep import execute, reference_coords
from vf.worker import R

PROPERTY = "C02"
LEVEL = "exploration"
RULE = ("case = one execution of a corpus plan with ONE terminal cause: abort / stop / halt landing after every loop handle "
        "(running) or taken as the decision after a pause, a pause/suspension in a non-resumable section, a device operation "
        "made to raise or to fail its status (every device op x {raise, fail-now, fail-later}), a plan error, or none; for "
        "every RunStop emitted after the cause the exit_status (and reason for failures) and the exception raised by the "
        "public call are compared with the cause; distinct = (plan, cause, command at landing, who closed the run, outcome "
        "class); non-trivial = a run was open when the cause occurred")
ASSUMPTIONS = ["single-cause executions only (two different running-state requests in one call are ambiguous)",
               "a run closed by the plan itself with a bare close_run before the cause occurred is 'success' by definition",
               "expected: stop->success, abort/halt/failed pause->abort, unhandled error->fail with reason str(exc)"]
REQUIRED_COUNTERS = {"executions": 800, "stops_judged": 500, "abort_causes": 100, "stop_causes": 100, "halt_causes": 100,
                     "fail_causes": 50, "failedpause_causes": 20, "exceptions_judged": 500}
MANIFEST = {
    "technique": "cause-vs-outcome oracle over the ordered log (accepted request / injected fault -> RunStop exit_status, "
                 "reason, raised exception identity) on an exhaustive terminate-coordinate sweep + device-fault enumeration",
    "category": "exploration",
    "text": "Every termination kind lands after every loop handle and as every post-pause decision, every device "
            "operation fails in three modes; each RunStop emitted after the cause and the exception of the public call "
            "are compared with what that cause demands (incl. identity of the injected exception and FailedStatus chaining).",
    "note": "Corpus plans x all coordinates; cause ordering is taken from the totally ordered log.",
    "design_ref": "3 (C02)",
}
PLANS_Q = ["scan", "custom", "neverclose", "clearcp", "two_runs", "rw_fail", "nested", "cleanup_fails"]
PLANS_T = PLANS_Q + ["count", "grid", "fly", "list_scan", "rel_scan"]
SHARD_TIMEOUT = {"quick": 900, "thorough": 3600}
worker_init = sweepcheck.worker_init
EXPECT = {"abort": "abort", "halt": "abort", "stop": "success", "failedpause": "abort"}


def gen_cases(tier, seed):
    cases = sweepcheck.gen_cases(tier, seed, PLANS_Q, PLANS_T, ["abort", "stop", "halt", "pause", "suspend"])
    for p in (PLANS_Q if tier == "quick" else PLANS_T):
        if p != "cleanup_fails":   # (its cleanup replaces every error by its own: device faults are not what the call raises)
            cases.append({"plan": p, "faults": True, "seed": seed})
    return cases


def judge(ex, ref, case):
    nm = len(ref.h.msgs())
    li = landing_info(ex, nm)
    key0 = f"{ex.spec['plan']}|" + ("+".join(f"{x['kind']}@{x['command']}/{x['region']}" for x in li) or "none")
    if ex.timeout or ex.stuck or ex.final_state != "idle":
        return [R("inconclusive", key0, detail="engine did not come back idle (judged by C07)")]
    log = ex.log
    causes = []          # (log index, cause, payload)
    nonresumable = False
    open_runs = 0
    problems = []
    counters = {"executions": 1, "stops_judged": 0, "exceptions_judged": 0}
    cur_msg = None
    stops = []
    abort_requested = any((e[0] == "req" and e[1] == "abort" and e[2] == "accepted") or (e[0] == "call" and e[1] == "abort")
                          for e in log)
    for i, e in enumerate(log):
        if e[0] == "msg":
            cur_msg = (i, e[1])
            if e[1].command == "clear_checkpoint":
                nonresumable = True
        elif e[0] == "req" and e[2] == "accepted" and e[1] in ("abort", "stop", "halt"):
            abort_requested = abort_requested or e[1] == "abort"
        elif e[0] == "call" and e[1] in ("abort", "stop", "halt"):
            abort_requested = abort_requested or e[1] == "abort"
        elif e[0] == "state" and e[1] in ("aborting", "stopping", "halting") and e[2] != e[1]:
            # the moment the cause takes effect, from the engine's own state trace; 'aborting' without anybody having
            # asked for an abort is the failed pause / failed suspension of a non-resumable section
            k = {"stopping": "stop", "halting": "halt"}.get(e[1]) or ("abort" if abort_requested else "failedpause")
            if not any(c[1] == "fail" for c in causes):
                causes.append((i, k, None))
        elif e[0] == "fault":
            causes.append((i, "fail", e[4]))
        elif e[0] == "plan" and e[1] == "raised":
            pass
        elif e[0] == "doc" and e[1] == "start":
            open_runs += 1
        elif e[0] == "doc" and e[1] == "stop":
            open_runs -= 1
            by_plan = cur_msg is not None and cur_msg[1].command == "close_run" and \
                ex.log.stamps[cur_msg[0]][1] == ex.log.stamps[i][1]
            stops.append((i, e[2], by_plan, cur_msg[1] if by_plan else None))
        elif e[0] in ("call",) and e[1] == "probe":
            break
        elif e[0] == "harness":
            break
    # plan error of the corpus (rw_fail) is a cause too: detect through the exception the call raised
    final_exc = next((r[1] for n, r in ex.calls if r[0] == "exc" and not isinstance(r[1], RunEngineInterrupted)), None)
    kinds = {c[1] for c in causes}
    if len(kinds) > 1 or (causes and final_exc is not None and kinds <= {"abort", "stop", "halt"}):
        if final_exc is None:
            return [R("skip", key0, False, detail=f"ambiguous causes {sorted(kinds)}")]
        # a termination request AND an error the plan did not handle (e.g. its cleanup raised): the call re-raises that
        # error, and a RunStop that says 'fail' must give ITS text as the reason (not the abort reason)
        causes = []
    if final_exc is not None and not causes:
        # a plan error (or an error produced by the engine while replaying): the cause is that exception; it is not
        # visible in the log before it surfaces, so only RunStops carrying 'fail' are compared for their reason
        causes.append((len(log), "fail", final_exc))
    cause = causes[0] if causes else None
    ckind = cause[1] if cause else "none"
    counters[{"abort": "abort_causes", "stop": "stop_causes", "halt": "halt_causes", "fail": "fail_causes",
              "failedpause": "failedpause_causes", "none": "no_cause"}[ckind]] = 1
    run_open_at_cause = False
    if cause:
        n = 0
        for j, e in enumerate(log[:cause[0]]):
            if e[0] == "doc" and e[1] == "start":
                n += 1
            elif e[0] == "doc" and e[1] == "stop":
                n -= 1
        run_open_at_cause = n > 0
    for (i, doc, by_plan, msg) in stops:
        if cause is None or i < cause[0]:
            expected = "success"
            if by_plan and msg.kwargs.get("exit_status") not in (None, "success"):
                continue  # the plan chose a status itself before anything happened
        else:
            expected = EXPECT.get(ckind, "fail")
        if ckind == "fail" and cause[0] == len(log):
            # error known only from the exception the call raised (a plan error): when it happened relative to this
            # RunStop is not in the log, so only RunStops that say 'fail' are judged (for their reason)
            if doc["exit_status"] != "fail":
                continue
            expected = "fail"
        counters["stops_judged"] += 1
        who = "plan" if by_plan else "engine"
        if doc["exit_status"] != expected:
            problems.append((f"exit_status-{doc['exit_status']}-expected-{expected}:cause={ckind}:closed-by={who}",
                             f"RunStop exit_status={doc['exit_status']!r} reason={doc.get('reason')!r} but cause is {ckind}"))
        elif expected == "fail" and isinstance(cause[2], BaseException):
            exc = cause[2]
            texts = {str(exc)}
            if final_exc is not None:
                texts.add(str(final_exc))
            if doc.get("reason") not in texts:
                problems.append((f"fail-reason-mismatch:closed-by={who}", f"reason={doc.get('reason')!r} expected one of {texts}"))
    # exception raised by the public calls
    for n, r in ex.calls:
        if n == "probe":
            continue
        counters["exceptions_judged"] += 1
        if ckind in ("abort", "stop", "halt", "failedpause"):
            # the call during which the cause took effect must raise RunEngineInterrupted (abort()/stop()/halt() taken
            # as a decision return normally themselves)
            if n in ("RE", "resume") and not (r[0] == "exc" and isinstance(r[1], RunEngineInterrupted)):
                cause_during = any(c[0] for c in causes)
                # only when the cause occurred during that call
                idx_call = [i for i, e in enumerate(log) if e[0] == "call" and e[1] == n]
                idx_ret = [i for i, e in enumerate(log) if e[0] in ("ret", "exc") and e[1] == n]
                if idx_call and idx_ret and idx_call[0] < cause[0] < idx_ret[0] and run_open_at_cause:
                    problems.append((f"no-RunEngineInterrupted-after-{ckind}", f"{n} ended with {r[0]}:{r[1]!r}"))
        elif ckind == "fail" and isinstance(cause[2], Fault) and n in ("RE", "resume"):
            if r[0] != "exc":
                # the plan may legitimately handle the error (finalize/contingency wrappers re-raise; corpus plans do not swallow)
                problems.append(("device-failure-not-raised", f"{n} returned normally after injected {cause[2]!r}"))
            else:
                exc = r[1]
                mode = next(e[3] for e in log if e[0] == "fault")
                if mode == "raise":
                    if exc is not cause[2]:
                        problems.append(("raised-exception-is-not-the-device-exception", f"{n} raised {exc!r}"))
                else:
                    if not isinstance(exc, FailedStatus):
                        problems.append((f"failed-status-surfaced-as-{type(exc).__name__}", f"{n} raised {exc!r}"))
                    elif exc.__cause__ is not cause[2]:
                        problems.append(("FailedStatus-not-chained-to-device-exception", f"__cause__={exc.__cause__!r}"))
    key = f"{key0}|cause={ckind}|{outcome_class(ex)}"
    if not li and not any(e[0] == "fault" for e in log) and ckind == "none":
        return [R("skip", key, False, counters={"executions": 1})]
    if problems:
        out, seen = [], set()
        region = li[0]["region"] if li else "fault"
        for kd, detail in problems:
            sig = f"C02:{kd}:{region}"
            if sig in seen:
                continue
            seen.add(sig)
            out.append(R("violated", key + "|" + kd, True, sig=sig, detail=f"{key}: {detail}",
                         witness={"spec": spec_json(ex.spec), "landing": li, "calls": outcome_class(ex),
                                  "stops": [(d["exit_status"], d.get("reason"), bp) for _, d, bp, _ in stops]},
                         counters=counters, case={"replay_spec": spec_json(ex.spec)}))
            counters = {}
        return out
    return [R("held", key, run_open_at_cause, counters=counters,
              sample={"plan": ex.spec["plan"], "inj": ex.spec.get("inj"), "faults": ex.spec.get("faults"), "cause": ckind,
                      "stops": [(d["exit_status"], d.get("reason"), "plan" if bp else "engine") for _, d, bp, _ in stops],
                      "calls": outcome_class(ex)} if run_open_at_cause and ckind != "none" else None)]


def run_case(case):
    if case.get("faults"):
        ref, _ = reference_coords({"plan": case["plan"]})
        ops, counts = [], {}
        for e in ref.log:
            if e[0] == "dev" and e[2] in ("set", "trigger", "read", "stage", "kickoff", "complete", "collect"):
                k = (e[1], e[2])
                counts[k] = counts.get(k, 0) + 1
                ops.append((e[1], e[2], counts[k]))
        out = []
        for (dev, op, n) in ops:
            for mode in ["raise"] + (["fail-now", "fail-later"] if op in ("set", "trigger", "kickoff", "complete") else []):
                out += judge(execute({"plan": case["plan"], "faults": [[[dev, op, n], mode]], "decisions": []}), ref, case)
        return out
    return sweepcheck.run_case(case, judge, decisions=("abort", "stop", "halt"), inj_params={"abort": {"reason": "beam dump"}})
