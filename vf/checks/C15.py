"""C15 — events contain exactly the readings bundled between create and save."""

from __future__ import annotations

import itertools

from bluesky.utils import IllegalMessageSequence, Msg

from vf.common import rng_for
from vf.devices import Det
from vf.oracles.common import quiet_logging
from vf.reh import Harness
from vf.worker import R

PROPERTY = "C15"
LEVEL = "exploration"
RULE = ("case = one RunEngine execution of a seeded bundle sequence (8..40 steps over create/read/save/drop on two streams "
        "with fixed object sets, reads in varying order, reads outside a bundle, empty saves, drops) with illegal steps "
        "wrapped in try/except at marked positions: a read whose data keys overlap an object already in the bundle, a "
        "checkpoint / configure / second create inside a bundle, a save without create; saves that fail (fewer objects than the stream's descriptor; a later subscriber raising on the event) after which the plan carries on; devices return a fresh value at "
        "every read; oracle (sequential bundler model): every non-empty save emits exactly one event whose data and "
        "timestamps are the union of that bundle's readings, preceded by its stream's descriptor with the same key set, "
        "seq_nums per stream 1,2,3,...; drop and empty save emit nothing; every illegal step raises at its own yield "
        "(IllegalMessageSequence, ValueError for the key collision) and leaves the bundle as it was; distinct = (bundle "
        "shape sequence, illegal step kinds)")
ASSUMPTIONS = ["a stream's object set is fixed by its first saved bundle; a bundle with a different set fails at save with "
               "RuntimeError and the bundle is over (next create starts from nothing)"]
REQUIRED_COUNTERS = {"executions": 300, "events_checked": 600, "drops": 200, "empty_saves": 100, "illegal_steps": 400,
                     "collisions": 80, "failed_saves": 60}
MANIFEST = {
    "technique": "reference-model differential (30-line sequential bundler) against the real RunEngine/RunBundler on "
                 "seeded legal and illegal bundle sequences, readings tracked by value identity through the device ledger",
    "category": "exploration",
    "text": "Seeded create/read/save/drop sequences with embedded illegal steps are executed on the real engine; emitted "
            "events are matched with the readings the fake devices handed out during that bundle, and every illegal step "
            "must be rejected at its own yield.",
    "note": "Sampled sequences; fakes with fresh values per read.",
    "design_ref": "4 (C15)",
}


def worker_init(tier, seed):
    quiet_logging()


def gen_cases(tier, seed):
    n = 320 if tier == "quick" else 5000
    return [{"start": s, "count": 20, "seed": seed} for s in range(0, n, 20)]


def build_steps(rng):
    """-> list of (op, arg, illegal_kind|None)"""
    streams = {"primary": ["a", "b"], "aux": ["c"], "wide": ["a", "c", "d"]}
    steps = []
    cur = None
    read = []
    saved = set()   # streams whose object set is fixed by an emitted event
    n = rng.randint(8, 40)
    while len(steps) < n:
        if cur is None:
            r = rng.random()
            if r < 0.65:
                cur = rng.choice(list(streams))
                read = []
                steps.append(("create", cur, None))
            elif r < 0.8:
                steps.append(("read", rng.choice("abcd"), None))          # read outside a bundle: legal, no effect
            elif r < 0.9:
                steps.append(("checkpoint", None, None))
            else:
                steps.append(("save", None, "save-without-create"))
        else:
            todo = [o for o in streams[cur] if o not in read]
            r = rng.random()
            if r < 0.04 and read:
                steps.append(("read", "x_" + read[0], "key-collision"))     # shares a data key with an object already read
            elif r < 0.08:
                steps.append(("checkpoint", None, "checkpoint-in-bundle"))
            elif r < 0.12:
                steps.append(("configure", "a", "configure-in-bundle"))
            elif r < 0.16:
                steps.append(("create", cur, "second-create"))
            elif r < 0.24:
                steps.append(("drop", None, None))
                cur = None
            elif todo and read and cur in saved and r < 0.32:
                # fewer objects than the stream's descriptor has: the save fails (RuntimeError) and the bundle is over
                steps.append(("save", None, "save-mismatched-objects"))
                cur = None
            elif todo and (r < 0.9 or read):
                o = rng.choice(todo)
                read.append(o)
                steps.append(("read", o, None))
            else:
                # all objects of the stream read (-> a real event) or nothing read at all (-> an empty save)
                if read and rng.random() < 0.12:
                    # a later subscriber raises on the event: the save raises after the event went out
                    steps.append(("save", None, "subscriber-fails-on-event"))
                else:
                    steps.append(("save", None, None))
                if read:
                    saved.add(cur)
                cur = None
    if cur is not None:
        steps.append(("drop", None, None))
    return steps


def run_case(case):
    out = []
    for i in range(case["start"], case["start"] + case["count"]):
        rng = rng_for(case["seed"], "C15", i)
        steps = build_steps(rng)
        sub = {"start": i, "count": 1, "seed": case["seed"]}
        h = Harness()
        ctr = itertools.count(1)
        devs = {}
        for nm in "abcd":
            devs[nm] = Det(nm, h.log, delay=None, fn=lambda c=ctr: float(next(c)))
            devs["x_" + nm] = Det("x_" + nm, h.log, delay=None, fn=lambda c=ctr: float(next(c)), extra_keys=[nm])
        outcomes = []
        fail_event = {"on": False}

        def late_subscriber(name, doc):   # registered after the harness' recorder
            if name == "event" and fail_event["on"]:
                fail_event["on"] = False
                raise RuntimeError("subscriber failed on event")

        h.RE.subscribe(late_subscriber)

        def plan():
            yield Msg("open_run")
            for k, (op, arg, illegal) in enumerate(steps):
                if op == "create":
                    m = Msg("create", name=arg)
                elif op == "read":
                    m = Msg("read", devs[arg])
                elif op == "configure":
                    m = Msg("configure", devs[arg])
                else:
                    m = Msg(op)
                h.log.append(("plan", "step", k, m))
                fail_event["on"] = illegal == "subscriber-fails-on-event"
                try:
                    yield m
                    outcomes.append((k, "ok", None))
                except Exception as e:  # noqa: BLE001
                    outcomes.append((k, "exc", e))
            yield Msg("close_run")

        r = h.call("RE", h.RE, plan())
        h.close()
        log = h.log
        # ---- model ---------------------------------------------------------------------------------
        problems = []
        counters = {"executions": 1, "events_checked": 0, "drops": 0, "empty_saves": 0, "illegal_steps": 0, "collisions": 0,
                    "failed_saves": 0}
        if r[0] != "ret":
            problems.append((f"call-failed:{type(r[1]).__name__}", repr(r[1])))
        step_idx = {e[2]: j for j, e in enumerate(log) if e[0] == "plan" and e[1] == "step"}
        bounds = sorted(step_idx.items())
        oc = {k: (st, e) for k, st, e in outcomes}
        seq = {}
        desc_by_uid = {}
        cur, bundle = None, []
        shapes = []
        for n_, (k, j) in enumerate(bounds):
            j_end = bounds[n_ + 1][1] if n_ + 1 < len(bounds) else len(log)
            window = log[j:j_end]
            for e in window:
                if e[0] == "doc" and e[1] == "descriptor":
                    desc_by_uid[e[2]["uid"]] = e[2]
            events = [e[2] for e in window if e[0] == "doc" and e[1] in ("event", "event_page")]
            op, arg, illegal = steps[k]
            st, exc = oc.get(k, ("missing", None))
            if illegal == "subscriber-fails-on-event":
                counters["failed_saves"] += 1
                if st != "exc" or not isinstance(exc, RuntimeError):
                    problems.append(("subscriber-error-not-raised-at-save", f"step {k}: {st} {exc!r}"))
                st, illegal = "ok", None   # the event itself went out and is judged like any other
            elif illegal == "save-mismatched-objects":
                counters["failed_saves"] += 1
                if st != "exc" or not isinstance(exc, RuntimeError):
                    problems.append(("mismatched-bundle-accepted", f"step {k}: {st} {exc!r}"))
                if events:
                    problems.append(("mismatched-bundle-emitted-event", f"step {k}"))
                cur, bundle = None, []
                shapes.append("M")
                continue
            if illegal:
                counters["illegal_steps"] += 1
                counters["collisions"] += int(illegal == "key-collision")
                want = ValueError if illegal == "key-collision" else IllegalMessageSequence
                if st != "exc":
                    problems.append((f"illegal-step-accepted:{illegal}", f"step {k} {op} raised nothing"))
                elif not isinstance(exc, want):
                    problems.append((f"illegal-step-raised-{type(exc).__name__}:{illegal}", repr(exc)))
                if events:
                    problems.append((f"illegal-step-emitted-event:{illegal}", f"step {k}"))
                continue
            if st != "ok":
                problems.append((f"legal-step-rejected:{op}", f"step {k} {op}({arg}): {exc!r}"))
                continue
            if op == "create":
                cur, bundle = arg, []
            elif op == "read":
                rd = next((e[3] for e in window if e[0] == "devret" and e[2] == "read"), None)
                if cur is not None and rd is not None:
                    bundle.append(rd)
            elif op == "drop":
                counters["drops"] += 1
                shapes.append("D")
                if events:
                    problems.append(("drop-emitted-event", f"step {k}"))
                cur, bundle = None, []
            elif op == "save":
                if not bundle:
                    counters["empty_saves"] += 1
                    shapes.append("E")
                    if events:
                        problems.append(("empty-save-emitted-event", f"step {k}"))
                else:
                    shapes.append(f"S{len(bundle)}")
                    if len(events) != 1:
                        problems.append((f"save-emitted-{len(events)}-events", f"step {k} bundle of {len(bundle)} readings"))
                    else:
                        ev = events[0]
                        counters["events_checked"] += 1
                        exp_data = {kk: vv["value"] for rdg in bundle for kk, vv in rdg.items()}
                        exp_ts = {kk: vv["timestamp"] for rdg in bundle for kk, vv in rdg.items()}
                        if ev["data"] != exp_data:
                            problems.append(("event-data-not-the-bundled-readings", f"step {k}: {ev['data']} vs bundled {exp_data}"))
                        elif ev["timestamps"] != exp_ts:
                            problems.append(("event-timestamps-not-the-bundled-readings", f"step {k}"))
                        d = desc_by_uid.get(ev["descriptor"])
                        if d is None:
                            problems.append(("event-without-earlier-descriptor", f"step {k}"))
                        else:
                            if d.get("name") != cur:
                                problems.append(("event-in-wrong-stream", f"step {k}: descriptor {d.get('name')} bundle {cur}"))
                            if set(d["data_keys"]) != set(exp_data):
                                problems.append(("descriptor-keys-differ-from-event", f"step {k}: {sorted(d['data_keys'])} vs {sorted(exp_data)}"))
                        seq[cur] = seq.get(cur, 0) + 1
                        if ev["seq_num"] != seq[cur]:
                            problems.append(("seq_num-not-previous-plus-one", f"step {k} stream {cur}: seq_num {ev['seq_num']} expected {seq[cur]}"))
                            seq[cur] = ev["seq_num"]
                cur, bundle = None, []
        kinds = sorted({s[2] for s in steps if s[2]})
        key = f"{''.join(shapes)[:24]}|illegal={kinds}"
        if problems:
            seen = set()
            for kd, detail in problems:
                sig = f"C15:{kd}"
                if sig in seen:
                    continue
                seen.add(sig)
                out.append(R("violated", key + "|" + kd, True, sig=sig, detail=detail,
                             witness={"steps": steps, "outcomes": [(k, st, repr(e)) for k, st, e in outcomes]},
                             counters=counters, case=sub))
                counters = {}
        else:
            out.append(R("held", key, True, counters=counters,
                         sample={"steps": steps[:16], "bundles": "".join(shapes)} if len(steps) < 14 else None))
    return out
