"""C14 — concurrent runs with different run keys stay independent."""

from __future__ import annotations

from bluesky.utils import IllegalMessageSequence, RunEngineInterrupted

from vf import sweepcheck
from vf.oracles.common import landing_info, outcome_class, spec_json
from vf.oracles.docs import check_stream, numbering
from vf.worker import R

PROPERTY = "C14"
LEVEL = "exploration"
RULE = ("case = one execution of a generated plan keeping 2-4 runs open at once with run keys (seeded random interleaving of "
        "open / checkpointed data points / close per key; run Ki only reads detector kdet<i>; variants with "
        "set_run_key_wrapper and with a duplicate open_run on an open key inside try/except), uninterrupted and with "
        "pause/suspend/abort/stop landing after EVERY loop handle; oracle: C01 stream check and C05 numbering per run, "
        "every event's data keys belong to the run whose key is in its RunStart, and a duplicate open_run is rejected with "
        "IllegalMessageSequence at that yield while every open run still completes; distinct = (key layout, kind, command "
        "at landing, outcome)")
ASSUMPTIONS = ["the run key is recorded by the plan in the RunStart metadata ('key'), detectors are private to a key"]
REQUIRED_COUNTERS = {"executions": 500, "events_attributed": 2000, "concurrent_runs_max": 500, "duplicate_open_checked": 50}
MANIFEST = {
    "technique": "per-run document oracle (lifecycle, numbering, key attribution through key-private detectors) on seeded "
                 "interleaved run-key plans over an exhaustive interruption-coordinate sweep",
    "category": "exploration",
    "text": "Generated plans with 2-4 concurrently open keyed runs are interrupted at every loop handle; each run's "
            "documents are checked on their own and every event is attributed to its key through key-private detectors.",
    "note": "Generated key layouts (incl. falsy run keys under an enclosing wrapper) uninterrupted and x all coordinates x 4 kinds.",
    "design_ref": "3 (C14)",
}
PLANS_Q = ["keys_a", "keys_b", "keys_dup", "keys_wrap", "nested", "keys_sparse", "keys_falsy"]
PLANS_T = PLANS_Q + ["keys_sparse2", "keys_c", "keys_dup2", "keys_falsy2"]
SHARD_TIMEOUT = {"quick": 900, "thorough": 3600}
worker_init = sweepcheck.worker_init


def gen_cases(tier, seed):
    cases = sweepcheck.gen_cases(tier, seed, PLANS_Q, PLANS_T, ["pause", "suspend", "abort", "stop"])
    for p in (PLANS_Q if tier == "quick" else PLANS_T):
        cases.append({"plan": p, "plain": True, "seed": seed})
    return cases


def judge(ex, ref, case):
    li = landing_info(ex, len(ref.h.msgs()))
    key0 = f"{ex.spec['plan']}|" + ("+".join(f"{x['kind']}@{x['command']}" for x in li) or "uninterrupted")
    if ex.timeout or ex.stuck or ex.final_state != "idle":
        return [R("inconclusive", key0, detail="engine did not come back idle (judged by C07)")]
    log = ex.log
    docs = ex.h.docs()
    problems = []
    p1, counts, runs = check_stream(docs, engine_idle=True, validate=False)
    problems += [(f"stream:{k}", d) for k, d in p1]
    marks = [i for i, e in enumerate(log) if (e[0] == "call" and e[1] == "resume") or (e[0] == "msg" and e[1].command == "_start_suspender")]
    p2, _ = numbering([(i, e[1], e[2]) for i, e in enumerate(log) if e[0] == "doc"], marks)
    problems += [(f"numbering:{k}", d) for k, d in p2]
    # attribution
    starts = {d["uid"]: d for n, d in docs if n == "start"}
    desc = {d["uid"]: d["run_start"] for n, d in docs if n == "descriptor"}
    attributed = 0
    for n, d in docs:
        if n == "event":
            st = starts.get(desc.get(d["descriptor"]))
            if st is None:
                continue
            key = st.get("key")
            for dk in d["data"]:
                if dk.startswith("kdet"):
                    attributed += 1
                    if key != f"K{dk[4:]}":
                        problems.append(("event-in-wrong-run", f"reading of {dk} recorded in run with key {key}"))
                elif ex.spec["plan"] == "nested" and dk in ("det", "det2"):
                    attributed += 1
                    if key != {"det": "A", "det2": "B"}[dk]:
                        problems.append(("event-in-wrong-run", f"reading of {dk} recorded in run with key {key}"))
    # concurrency actually exercised
    n_open, max_open = 0, 0
    for n, d in docs:
        if n == "start":
            n_open += 1
            max_open = max(max_open, n_open)
        elif n == "stop":
            n_open -= 1
    dup_ok = 0
    for e in log:
        if e[0] == "plan" and e[1] == "dup-open-accepted":
            problems.append(("duplicate-key-open_run-accepted", f"key K{e[2]} opened twice"))
        elif e[0] == "plan" and e[1] == "dup-open-rejected":
            from bluesky.utils import FailedPause, RunEngineControlException

            if isinstance(e[3], (RunEngineControlException, FailedPause)):
                continue  # the interruption itself was thrown at that yield; the duplicate open_run was not judged
            dup_ok += 1
            if not isinstance(e[3], IllegalMessageSequence):
                problems.append((f"duplicate-key-rejected-with-{type(e[3]).__name__}", repr(e[3])))
    if not li:
        r0 = dict(ex.calls).get("RE")
        if r0 is not None and r0[0] != "ret":
            problems.append((f"uninterrupted-plan-failed:{type(r0[1]).__name__}", repr(r0[1])[:200]))
    counters = {"executions": 1, "events_attributed": attributed, "concurrent_runs_max": int(max_open >= 2),
                "duplicate_open_checked": dup_ok}
    key = f"{key0}|open<={max_open}|{outcome_class(ex)}"
    if problems:
        out, seen = [], set()
        for kd, detail in problems:
            sig = f"C14:{kd}"
            if sig in seen:
                continue
            seen.add(sig)
            out.append(R("violated", key + "|" + kd, True, sig=sig, detail=f"{key}: {detail}",
                         witness={"spec": spec_json(ex.spec), "landing": li, "calls": outcome_class(ex),
                                  "docs": [(n, (starts.get(d.get("run_start")) or {}).get("key")) for n, d in docs][:60]},
                         counters=counters, case={"replay_spec": spec_json(ex.spec)}))
            counters = {}
        return out
    return [R("held", key, max_open >= 2, counters=counters,
              sample={"plan": ex.spec["plan"], "inj": [i[:3] for i in ex.spec.get("inj", [])], "max_open": max_open,
                      "docs": [(n, (starts.get(desc.get(d.get("descriptor"), d.get("run_start"))) or starts.get(d.get("uid")) or {}).get("key"))
                               for n, d in docs][:30]} if li and max_open >= 3 else None)]


def run_case(case):
    if case.get("plain"):
        from vf.sweep import reference_coords

        ref, _ = reference_coords({"plan": case["plan"]})
        return judge(ref, ref, case)
    return sweepcheck.run_case(case, judge, decisions=("abort",), first_decisions=("resume", "resume", "resume"))
