"""Shared case generation / execution for the properties judged on RE-sweeps (C01-C06, C08-C11, C13, C14, C40-C42)."""

from __future__ import annotations

from vf.common import rng_for
from vf.oracles.common import quiet_logging
from vf.sweep import DECISIONS, KINDS, execute, reference_coords


def gen_cases(tier, seed, plans_quick, plans_thorough, kinds, nslices=(2, 3), spec_extra=None, pairs=None):
    cases = []
    plans = plans_quick if tier == "quick" else plans_thorough
    nsl = nslices[0] if tier == "quick" else nslices[1]
    for p in plans:
        for k in kinds:
            for s in range(nsl):
                cases.append({"plan": p, "kind": k, "slice": [s, nsl], "seed": seed, "spec_extra": spec_extra or {}})
    if pairs and tier == "thorough":  # (checks that want pairs in the quick tier add them themselves)
        for p in plans:
            for (k1, k2) in pairs:
                cases.append({"plan": p, "kind": k1, "kind2": k2, "pairs": 12, "seed": seed,
                              "spec_extra": spec_extra or {}})
    return cases


def run_case(case, judge, decisions=("resume", "abort", "stop", "halt"), first_decisions=("resume", "resume", "resume"),
             inj_params=None, stride=1):
    """judge(ex, ref, case) -> list of result records."""
    if "replay_spec" in case:
        ref, _ = reference_coords(dict(case["replay_spec"], inj=[], decisions=[]))
        return judge(execute(case["replay_spec"]), ref, case)
    extra = dict(case.get("spec_extra") or {})
    base = dict(extra, plan=case["plan"])
    ref, coords = reference_coords(base)
    out = []
    kind = case["kind"]
    params = (inj_params or {}).get(kind, {})
    if "kind2" in case:
        rng = rng_for(case["seed"], "pair", case["plan"], kind, case["kind2"])
        p2 = (inj_params or {}).get(case["kind2"], {})
        for _ in range(case["pairs"]):
            i = rng.randrange(len(coords))
            c1 = coords[i]
            # (same_turn: both requests are made between the same two loop handles, i.e. in one event-loop turn)
            c2 = c1 if case.get("same_turn") else coords[min(len(coords) - 1, i + rng.randint(1, 25))]
            ex = execute(dict(base, inj=[[c1[0], c1[1], kind, params], [c2[0], c2[1], case["kind2"], p2]],
                              decisions=["resume", "resume", "resume", "resume"]))
            out += judge(ex, ref, case)
        return out
    s, n = case["slice"]
    for c in coords[s::n][::stride]:
        b = dict(base, inj=[[c[0], c[1], kind, params]])
        ex = execute(dict(b, decisions=list(first_decisions)))
        out += judge(ex, ref, case)
        if any(nm in DECISIONS for nm, _ in ex.calls):
            for dec in decisions:
                if dec == first_decisions[0]:
                    continue
                out += judge(execute(dict(b, decisions=[dec])), ref, case)
    return out


def worker_init(tier, seed):
    quiet_logging()
