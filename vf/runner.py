"""Check driver: shards cases over worker subprocesses, aggregates three-valued verdicts,
matches violations against known_findings.json, writes evidence/<id>.json.

Exit codes: 0 = held on everything explored (KNOWN-FINDING lines for listed findings);
            1 = at least one violation that known_findings.json does not list (VIOLATION line);
            2 = inconclusive (deciding monitors not reached / too many cases without verdict).
"""

from __future__ import annotations

import argparse
import hashlib
import importlib
import json
import os
import subprocess
import sys
import time

ROOT = os.path.dirname(os.path.dirname(os.path.abspath(__file__)))
PY = "/venv/bin/python"
MAX_JOBS = 16


def _env():
    env = dict(os.environ)
    env["PYTHONHASHSEED"] = "0"
    alt = os.environ.get("VERIF_REPO")
    env["PYTHONPATH"] = (os.path.join(alt, "src") + os.pathsep if alt else "") + ROOT + os.pathsep + \
        os.path.join(ROOT, ".deps") + os.pathsep + env.get("PYTHONPATH", "")
    env["BLUESKY_VERIF"] = "1"
    env.setdefault("MPLBACKEND", "Agg")
    return env


def ensure_deps():
    if not os.path.isdir(os.path.join(ROOT, ".deps", "icontract")):
        subprocess.run(["sh", os.path.join(ROOT, "setup.sh")], cwd=ROOT, stdout=subprocess.DEVNULL,
                       stderr=subprocess.DEVNULL, timeout=600, check=False)


def load_findings(prop):
    path = os.path.join(ROOT, "known_findings.json")
    if not os.path.exists(path):
        return []
    with open(path) as f:
        data = json.load(f)
    return [x for x in data.get("findings", []) if x.get("property") == prop]


def match_finding(findings, sig):
    import fnmatch

    for f in findings:
        if sig == f["sig"] or fnmatch.fnmatchcase(sig, f["sig"]):
            return f
    return None


def merge(agg, part):
    for k in ("evaluations", "held", "violated", "inconclusive", "skipped"):
        agg[k] = agg.get(k, 0) + part.get(k, 0)
    agg.setdefault("keys", set()).update(part.get("keys", []))
    agg.setdefault("states", set()).update(part.get("states", []))
    for name, n in part.get("counters", {}).items():
        agg.setdefault("counters", {})[name] = agg.get("counters", {}).get(name, 0) + n
    agg.setdefault("samples", [])
    for s in part.get("samples", []):
        if len(agg["samples"]) < 12:
            agg["samples"].append(s)
    agg.setdefault("violations", []).extend(part.get("violations", []))
    agg.setdefault("inconclusive_reasons", {})
    for r, n in part.get("inconclusive_reasons", {}).items():
        agg["inconclusive_reasons"][r] = agg["inconclusive_reasons"].get(r, 0) + n


def run(prop, tier, seed, jobs, replay=None, keep=False):
    t0 = time.time()
    ensure_deps()
    sys.path.insert(0, os.path.join(ROOT, ".deps"))
    mod = importlib.import_module(f"vf.checks.{prop}")
    work = os.path.join(ROOT, ".work", f"{prop}-{os.getpid()}")
    os.makedirs(work, exist_ok=True)
    os.makedirs(os.path.join(ROOT, "evidence"), exist_ok=True)
    os.makedirs(os.path.join(ROOT, "replays"), exist_ok=True)

    if replay:
        with open(replay) as f:
            w = json.load(f)
        cases = [w["case"]]
        want_sig = w.get("sig")
    else:
        cases = mod.gen_cases(tier, seed)
        want_sig = None

    njobs = max(1, min(jobs, len(cases)))
    shards = [cases[i::njobs] for i in range(njobs)]
    procs = []
    timeout = getattr(mod, "SHARD_TIMEOUT", {"quick": 900, "thorough": 7200}).get(tier, 900)
    for i, sh in enumerate(shards):
        inp = os.path.join(work, f"shard{i}.in.json")
        out = os.path.join(work, f"shard{i}.out.json")
        if os.path.exists(out):
            os.unlink(out)
        with open(inp, "w") as f:
            json.dump({"tier": tier, "seed": seed, "cases": sh}, f)
        p = subprocess.Popen([PY, "-X", "faulthandler", "-m", "vf.worker", prop, inp, out], cwd=ROOT, env=_env(),
                             stdout=subprocess.DEVNULL, stderr=open(os.path.join(work, f"shard{i}.err"), "w"))
        procs.append((p, inp, out, len(sh)))

    agg: dict = {}
    deadline = time.time() + timeout
    shard_failures = []
    for i, (p, inp, out, n) in enumerate(procs):
        try:
            p.wait(timeout=max(1, deadline - time.time()))
        except subprocess.TimeoutExpired:
            p.kill()
            p.wait()
            shard_failures.append(f"shard{i}: timeout after {timeout}s")
        if os.path.exists(out):
            try:
                with open(out) as f:
                    merge(agg, json.load(f))
                continue
            except Exception as e:  # noqa: BLE001
                shard_failures.append(f"shard{i}: unreadable output {e!r}")
        else:
            errp = os.path.join(work, f"shard{i}.err")
            tail = ""
            if os.path.exists(errp):
                with open(errp) as f:
                    tail = f.read()[-1500:]
            shard_failures.append(f"shard{i}: no output rc={p.returncode} {tail}")

    findings = load_findings(prop)
    known_hit = {}
    new_viol = []
    for v in agg.get("violations", []):
        f = match_finding(findings, v["sig"])
        if f is not None:
            known_hit.setdefault(f["sig"], [f, 0])
            known_hit[f["sig"]][1] += 1
        else:
            new_viol.append(v)

    counters = agg.get("counters", {})
    required = getattr(mod, "REQUIRED_COUNTERS", {})
    unreached = [k for k, n in required.items() if counters.get(k, 0) < n]
    judged = agg.get("held", 0) + agg.get("violated", 0)
    incon = agg.get("inconclusive", 0)

    for sig, (f, n) in sorted(known_hit.items()):
        print(f"KNOWN-FINDING: property={prop} {sig} — {f.get('what', '')} [{n} witnesses this run]")

    rc = 0
    replay_paths = []
    if new_viol:
        rc = 1
        seen = set()
        for v in new_viol:
            if v["sig"] in seen:
                continue
            seen.add(v["sig"])
            h = hashlib.sha1((v["sig"] + json.dumps(v["case"], sort_keys=True, default=str)).encode()).hexdigest()[:10]
            path = os.path.join(ROOT, "replays", f"{prop}-{h}.json")
            with open(path, "w") as f:
                json.dump({"property": prop, "sig": v["sig"], "detail": v.get("detail"), "case": v["case"],
                           "witness": v.get("witness"), "tier": tier, "seed": seed}, f, indent=1, default=str)
            replay_paths.append(path)
            print(f"VIOLATION property={prop} replay={path}")
            print(f"  sig={v['sig']}  {str(v.get('detail'))[:300]}")
    elif replay:
        if want_sig and not any(v["sig"] == want_sig for v in agg.get("violations", [])):
            print(f"replay: signature {want_sig} NOT reproduced")
    if rc == 0 and not replay:
        if shard_failures or unreached or judged == 0 or incon > max(3, 0.05 * (judged + incon)):
            rc = 2
            print(f"INCONCLUSIVE property={prop} unreached={unreached} judged={judged} inconclusive={incon} "
                  f"reasons={agg.get('inconclusive_reasons')} shard_failures={shard_failures}")

    wall = time.time() - t0
    if not replay:
        keys = sorted(agg.get("keys", []))
        cov = {
            "evaluations": agg.get("evaluations", 0),
            "distinct_nontrivial": len(keys),
            "rule": getattr(mod, "RULE", ""),
            "samples": agg.get("samples", [])[:8] or [{"note": "no sample recorded"}],
            "held": agg.get("held", 0),
            "violated_total": agg.get("violated", 0),
            "violated_known": sum(n for _, n in known_hit.values()),
            "violated_new": len(new_viol),
            "inconclusive": incon,
            "inconclusive_reasons": agg.get("inconclusive_reasons", {}),
            "skipped_not_judged": agg.get("skipped", 0),
            "counters": counters,
            "required_counters": required,
            "distinct_keys_sample": keys[:40],
            "known_findings_hit": {s: n for s, (f, n) in known_hit.items()},
            "new_violation_sigs": sorted({v["sig"] for v in new_viol}),
            "cases_generated": len(cases),
            "jobs": njobs,
            "shard_failures": shard_failures,
            "verdict": {0: "held", 1: "violated", 2: "inconclusive"}[rc],
        }
        if agg.get("states"):
            cov["distinct_states_seen"] = len(agg["states"])
        if getattr(mod, "EXHAUSTIVE", None) and tier in mod.EXHAUSTIVE:
            cov["exhaustive_part"] = mod.EXHAUSTIVE[tier]
        ev = {
            "property_id": prop,
            "tier": tier,
            "seed": seed,
            "level": getattr(mod, "LEVEL", "exploration"),
            "coverage": cov,
            "assumptions": getattr(mod, "ASSUMPTIONS", []),
            "wall_s": round(wall, 2),
            "violations": len(new_viol),
        }
        evdir = os.environ.get("VERIF_EVIDENCE_DIR") or os.path.join(ROOT, "evidence")
        os.makedirs(evdir, exist_ok=True)
        with open(os.path.join(evdir, f"{prop}.json"), "w") as f:
            json.dump(ev, f, indent=1, default=str)
    import shutil

    shutil.rmtree(work, ignore_errors=True)
    print(f"{prop} tier={tier} seed={seed}: evaluations={agg.get('evaluations', 0)} held={agg.get('held', 0)} "
          f"violated={agg.get('violated', 0)} (known {sum(n for _, n in known_hit.values())}) "
          f"inconclusive={incon} skipped={agg.get('skipped', 0)} distinct={len(agg.get('keys', []))} "
          f"counters={counters} wall={wall:.1f}s rc={rc}")
    return rc


def main(argv=None):
    ap = argparse.ArgumentParser()
    ap.add_argument("prop")
    ap.add_argument("--tier", default=os.environ.get("VERIF_TIER", "quick"), choices=["quick", "thorough"])
    ap.add_argument("--seed", type=int, default=int(os.environ.get("VERIF_SEED", "0") or 0))
    ap.add_argument("--jobs", type=int, default=int(os.environ.get("VERIF_JOBS", str(MAX_JOBS))))
    ap.add_argument("--replay")
    a = ap.parse_args(argv)
    sys.exit(run(a.prop, a.tier, a.seed, a.jobs, replay=a.replay))


if __name__ == "__main__":
    main()
