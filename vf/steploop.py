"""StepLoop — a step/handle-counting asyncio loop with virtual time (the schedule instrument).

* counts loop iterations and executed handles; ``after_handle`` is called between two handles, i.e. exactly
  where a ``call_soon_threadsafe`` from a foreign thread could have appended to the ready queue;
* virtual time: when nothing is ready and only timers are pending the clock jumps to the earliest timer
  (unless ``freeze`` > 0: a helper thread is acting and the clock must not overtake it);
* quiescence: remembers since when (wall clock) the loop has had nothing ready and no timer.

Relies on CPython 3.12 private attributes ``_ready``/``_scheduled``/``_run_once`` (asserted at import).
"""

from __future__ import annotations

import asyncio
import asyncio.events
import threading
import time

assert hasattr(asyncio.BaseEventLoop, "_run_once"), "StepLoop needs BaseEventLoop._run_once"

_orig_handle_run = asyncio.events.Handle._run


def _patched_handle_run(self):
    _orig_handle_run(self)
    cb = getattr(self._loop, "_vf_after_handle", None)
    if cb is not None:
        cb()


asyncio.events.Handle._run = _patched_handle_run


class StepLoop(asyncio.SelectorEventLoop):
    def __init__(self, virtual=True):
        super().__init__()
        assert hasattr(self, "_ready") and hasattr(self, "_scheduled")
        self.virtual = virtual
        self._vnow = 0.0
        self.steps = 0
        self.handles = 0
        self.on_step = None
        self._vf_after_handle = self._after_handle
        self.after_handle = None
        self.freeze = 0
        self._freeze_lock = threading.Lock()
        self.quiescent_since = None
        self.jumps = 0
        self._foreign_posted = None

    # -- virtual clock ---------------------------------------------------------------------
    def time(self):
        if self.virtual:
            return self._vnow
        return super().time()

    def _after_handle(self):
        self.handles += 1
        cb = self.after_handle
        if cb is not None:
            cb()

    def call_soon_threadsafe(self, callback, *args, context=None):
        h = super().call_soon_threadsafe(callback, *args, context=context)
        ev = self._foreign_posted
        if ev is not None and threading.get_ident() != self._thread_id:
            ev.set()
        return h

    def hold(self):
        with self._freeze_lock:
            self.freeze += 1

    def release(self):
        with self._freeze_lock:
            self.freeze -= 1
        try:
            self._write_to_self()
        except Exception:  # noqa: BLE001
            pass

    def _run_once(self):
        self.steps += 1
        if self.on_step is not None:
            self.on_step(self.steps)
        if self.virtual and not self._ready and self._scheduled:
            live = [h._when for h in self._scheduled if not h._cancelled]
            if live:
                if self.freeze > 0:
                    # a helper thread is acting: poll instead of sleeping until the (virtual) deadline
                    time.sleep(0.0005)
                    self.call_soon(lambda: None)
                else:
                    when = min(live)
                    if when > self._vnow:
                        self._vnow = when
                        self.jumps += 1
        if not self._ready and not any(not h._cancelled for h in self._scheduled):
            if self.quiescent_since is None:
                self.quiescent_since = time.monotonic()
        else:
            self.quiescent_since = None
        super()._run_once()

    def is_quiescent_for(self, seconds):
        q = self.quiescent_since
        return q is not None and (time.monotonic() - q) >= seconds and not self._ready and self.freeze == 0
