"""Small helpers shared by the check modules."""

from __future__ import annotations

import hashlib
import itertools
import random


def rng_for(seed, *tags):
    h = hashlib.sha256(("|".join(str(t) for t in (seed,) + tags)).encode()).digest()
    return random.Random(int.from_bytes(h[:8], "big"))


def chunked(seq, n):
    seq = list(seq)
    return [seq[i:i + n] for i in range(0, len(seq), n)]


def jsonable(x, depth=0):
    """Best-effort conversion for witnesses and samples."""
    import numpy as np

    if depth > 6:
        return repr(x)[:80]
    if isinstance(x, (str, int, bool)) or x is None:
        return x
    if isinstance(x, float):
        return x if x == x and abs(x) != float("inf") else repr(x)
    if isinstance(x, (np.integer,)):
        return int(x)
    if isinstance(x, (np.floating,)):
        return jsonable(float(x))
    if isinstance(x, np.ndarray):
        return {"ndarray": jsonable(x.tolist(), depth + 1), "dtype": str(x.dtype)}
    if isinstance(x, dict):
        return {str(k): jsonable(v, depth + 1) for k, v in list(x.items())[:60]}
    if isinstance(x, (list, tuple, set, frozenset)):
        return [jsonable(v, depth + 1) for v in list(x)[:60]]
    return repr(x)[:160]
