"""Deterministic fake devices with a call ledger (protocol-typed, loop-driven).

Every method call is appended to ``ledger`` (any list-like with .append) as
``("dev", device_name, op, args_repr, extra)``. Statuses complete through the running asyncio loop
(call_soon / call_later), so under the StepLoop's virtual time they cost nothing and are deterministic.
"""

from __future__ import annotations

import asyncio
import itertools
import threading
import time


class NullLedger:
    def append(self, x):
        pass


class Fault(Exception):
    """Exception injected into a fake device."""


class St:
    """Status object completing on the loop (delay=None: already finished when returned)."""

    def __init__(self, dev, op, delay=0.0, exc=None, on_done=None):
        self.dev, self.op = dev, op
        self.done = False
        self.success = False
        self._exc = exc
        self._cbs = []
        self._on_done = on_done
        self._lock = threading.Lock()
        if delay is None:
            self._finish()
        else:
            loop = asyncio.get_running_loop()
            if delay == 0:
                loop.call_soon(self._finish)
            else:
                loop.call_later(delay, self._finish)

    def _finish(self):
        with self._lock:
            if self.done:
                return
            self.done = True
            self.success = self._exc is None
            cbs, self._cbs = self._cbs, []
        if self._on_done is not None and self.success:
            self._on_done()
        self.dev.ledger.append(("dev", self.dev.name, self.op + ":done", self.success, None))
        for cb in cbs:
            cb(self)

    def add_callback(self, cb):
        with self._lock:
            if not self.done:
                self._cbs.append(cb)
                return
        cb(self)

    def exception(self, timeout=0.0):
        return self._exc

    def wait(self, timeout=None):
        raise NotImplementedError

    def __repr__(self):
        return f"St({self.dev.name}.{self.op}, done={self.done}, success={self.success})"


class Base:
    parent = None

    def __init__(self, name, ledger=None, faults=None):
        self.name = name
        self.ledger = ledger if ledger is not None else NullLedger()
        # faults: dict (op, nth occurrence) -> mode in {"raise", "fail-now", "fail-later"}
        self.faults = faults if faults is not None else {}
        self._counts = {}
        self.injected = []  # exceptions this device injected (for identity checks)

    def _rec(self, op, args=None, extra=None):
        self.ledger.append(("dev", self.name, op, args, extra))
        n = self._counts[op] = self._counts.get(op, 0) + 1
        mode = self.faults.get((self.name, op, n))
        if mode == "raise":
            e = Fault(f"{self.name}.{op}#{n} raised")
            self.injected.append(e)
            self.ledger.append(("fault", self.name, op, "raise", e))
            raise e
        return mode

    def _ret(self, op, obj):
        """Record the very object handed back to the RunEngine (for response-identity oracles)."""
        self.ledger.append(("devret", self.name, op, obj))
        return obj

    def _status(self, op, mode, delay, on_done=None):
        if mode in ("fail-now", "fail-later"):
            e = Fault(f"{self.name}.{op} status failed ({mode})")
            self.injected.append(e)
            self.ledger.append(("fault", self.name, op, mode, e))
            return St(self, op, delay=0.0 if mode == "fail-now" else max(delay or 0.0, 0.0) + 0.05, exc=e)
        return St(self, op, delay=delay, on_done=on_done)

    def __repr__(self):
        return f"<{type(self).__name__} {self.name}>"


class Stageable_(Base):
    strict_stage = True

    def __init__(self, *a, **k):
        super().__init__(*a, **k)
        self.staged = False
        self.stage_calls = 0
        self.unstage_calls = 0

    def stage(self):
        self._rec("stage")
        self.stage_calls += 1
        if self.staged and self.strict_stage:
            raise RuntimeError(f"{self.name}: redundant staging")
        self.staged = True
        return self._ret("stage", [self])

    def unstage(self):
        self._rec("unstage")
        self.unstage_calls += 1
        self.staged = False
        return self._ret("unstage", [self])


class Motor(Stageable_):
    """Movable + Stoppable + Readable + Stageable; position discovery via .position (default)."""

    def __init__(self, name, ledger=None, faults=None, delay=0.0, pos=0.0):
        super().__init__(name, ledger, faults)
        self.position = pos
        self.delay = delay
        self.stops = 0
        self.hints = {"fields": [name]}

    def set(self, value, **kwargs):
        mode = self._rec("set", value)

        def arrive():
            self.position = value

        if self.delay is None:
            self.position = value
        return self._ret("set", self._status("set", mode, self.delay, on_done=arrive))

    def stop(self, success=True):
        self._rec("stop", success)
        self.stops += 1

    def read(self):
        self._rec("read")
        return self._ret("read", {self.name: {"value": self.position, "timestamp": 1.0 + self._counts.get("read", 0)}})

    def describe(self):
        return {self.name: {"source": "fake:" + self.name, "dtype": "number", "shape": []}}

    def read_configuration(self):
        return {}

    def describe_configuration(self):
        return {}


class LocMotor(Motor):
    """Locatable variant (no usable .position attribute semantics needed by plans)."""

    def locate(self):
        self._rec("locate")
        return self._ret("locate", {"setpoint": self.position, "readback": self.position})


class AsyncLocMotor(Motor):
    """Locatable whose locate() is a coroutine (ophyd-async style): a fault raises when the coroutine runs."""

    async def locate(self):
        self._rec("locate")
        return self._ret("locate", {"setpoint": self.position, "readback": self.position})


class Det(Stageable_):
    """Triggerable + Readable; value is a pure function of the motors it watches."""

    def __init__(self, name, ledger=None, faults=None, delay=0.0, motors=(), fn=None, extra_keys=()):
        super().__init__(name, ledger, faults)
        self.delay = delay
        self.motors = list(motors)
        self.fn = fn
        self.triggers = 0
        self.extra_keys = list(extra_keys)
        self.hints = {"fields": [name]}
        self.cfg = 0

    def trigger(self):
        mode = self._rec("trigger")
        self.triggers += 1
        return self._ret("trigger", self._status("trigger", mode, self.delay))

    def value(self):
        ps = [m.position for m in self.motors]
        if self.fn is not None:
            return self.fn(*ps)
        return float(sum((i + 1) * p for i, p in enumerate(ps))) + 0.5

    def read(self):
        self._rec("read")
        out = {self.name: {"value": self.value(), "timestamp": 2.0}}
        for k in self.extra_keys:
            out[k] = {"value": 1.0, "timestamp": 2.0}
        return self._ret("read", out)

    def describe(self):
        out = {self.name: {"source": "fake:" + self.name, "dtype": "number", "shape": []}}
        for k in self.extra_keys:
            out[k] = {"source": "fake:" + k, "dtype": "number", "shape": []}
        return out

    def read_configuration(self):
        self._rec("read_configuration")
        return {self.name + "_cfg": {"value": self.cfg, "timestamp": 3.0}}

    def describe_configuration(self):
        return {self.name + "_cfg": {"source": "fake:cfg", "dtype": "integer", "shape": []}}

    def configure(self, *args, **kwargs):
        self._rec("configure", args)
        old = self.read_configuration()
        self.cfg += 1
        return old, self.read_configuration()


class Sig(Base):
    """Subscribable signal, ophyd-like subscribe(cb, event_type=None, run=True) / clear_sub(cb)."""

    def __init__(self, name, ledger=None, faults=None, value=0, with_readings=False):
        super().__init__(name, ledger, faults)
        self.value = value
        self.subs = []
        self.with_readings = with_readings
        self._lock = threading.RLock()
        self.n_put = 0

    def get(self):
        return self.value

    def read(self):
        return {self.name: {"value": self.value, "timestamp": 4.0 + self.n_put}}

    def describe(self):
        return {self.name: {"source": "fake:" + self.name, "dtype": "number", "shape": []}}

    def read_configuration(self):
        return {}

    def describe_configuration(self):
        return {}

    def subscribe(self, cb, event_type=None, run=True):
        self._rec("subscribe", None, cb)
        with self._lock:
            self.subs.append(cb)
        if run:
            self.ledger.append(("dev", self.name, "initial-cb", self.value, None))
            self._call(cb, self.value, self.value)
            self.ledger.append(("dev", self.name, "initial-cb-done", self.value, None))
        return len(self.subs)

    def clear_sub(self, cb, event_type=None):
        self._rec("clear_sub", None, cb)
        with self._lock:
            # ophyd removes every registration of this callback
            self.subs = [c for c in self.subs if c is not cb and c != cb]

    def _call(self, cb, value, old):
        if self.with_readings:
            cb(self.read())
        else:
            cb(value=value, old_value=old, obj=self, timestamp=time.time())

    def put(self, value):
        self.ledger.append(("dev", self.name, "put", value, None))
        with self._lock:
            old, self.value = self.value, value
            self.n_put += 1
            subs = list(self.subs)
        for cb in subs:
            self._call(cb, value, old)
        self.ledger.append(("dev", self.name, "put-done", value, None))


class CfgSig(Sig):
    """A signal that can be configured (its configuration is a counter)."""

    def __init__(self, *a, **k):
        super().__init__(*a, **k)
        self.cfg = 0

    def read_configuration(self):
        return {self.name + "_cfg": {"value": self.cfg, "timestamp": 3.0}}

    def describe_configuration(self):
        return {self.name + "_cfg": {"source": "fake:cfg", "dtype": "integer", "shape": []}}

    def configure(self, *args, **kwargs):
        self._rec("configure", args)
        old = self.read_configuration()
        self.cfg += 1
        return old, self.read_configuration()


class Flyer(Base):
    """Flyable + EventCollectable (doubly nested describe_collect)."""

    def __init__(self, name, ledger=None, faults=None, delay=0.0, n_events=3, pages=False):
        super().__init__(name, ledger, faults)
        self.delay = delay
        self.n_events = n_events
        self.kicked = 0
        self.completed = 0
        self.collected = 0
        self.describe_collected = 0

    def kickoff(self):
        mode = self._rec("kickoff")
        self.kicked += 1
        return self._ret("kickoff", self._status("kickoff", mode, self.delay))

    def complete(self):
        mode = self._rec("complete")
        self.completed += 1
        return self._ret("complete", self._status("complete", mode, self.delay))

    def describe_collect(self):
        self._rec("describe_collect")
        self.describe_collected += 1
        return {self.name + "_stream": {self.name + "_x": {"source": "fake", "dtype": "number", "shape": []}}}

    def collect(self):
        self._rec("collect")
        self.collected += 1
        for i in range(self.n_events):
            yield {"data": {self.name + "_x": float(i)}, "timestamps": {self.name + "_x": 5.0 + i}, "time": 5.0 + i}


class StreamDet:
    parent = None

    def __init__(self, name, log):
        self.name = name
        self.log = log
        self.written = 0
        self.emitted = 0
        self.res_emitted = False
        self.key = f"{name}-sd"

    def describe_collect(self):
        return {self.key: {"source": "file", "dtype": "number", "shape": [4, 4], "external": "STREAM:"}}

    def get_index(self):
        self.log.append(("dev", self.name, "get_index", self.written, None))
        return self.written

    def collect_asset_docs(self, index=None):
        if index is None:
            index = self.written
        self.log.append(("dev", self.name, "collect_asset_docs", index, None))
        if not self.res_emitted:
            self.res_emitted = True
            yield "stream_resource", {"uid": f"{self.name}-res", "data_key": self.key, "mimetype": "application/x-hdf5",
                                      "uri": "file://localhost/tmp/x.h5", "parameters": {"dataset": "/data"}, "run_start": ""}
        if index > self.emitted:
            yield "stream_datum", {"uid": f"{self.name}-res/{self.emitted}", "stream_resource": f"{self.name}-res",
                                   "descriptor": "", "indices": {"start": self.emitted, "stop": index},
                                   "seq_nums": {"start": 0, "stop": 0}}
            self.emitted = index

    def kickoff(self):
        raise NotImplementedError

    def complete(self):
        raise NotImplementedError
