"""History interpreter for the PersistentDict check (C43); also run as a subprocess that ends with os._exit (crash)."""

from __future__ import annotations

import json
import os
import sys


def build_value(spec):
    import numpy as np

    k = spec[0]
    if k == "int":
        return spec[1]
    if k == "float":
        return spec[1]
    if k == "str":
        return spec[1]
    if k == "bytes":
        return spec[1].encode("latin1")
    if k == "none":
        return None
    if k == "bool":
        return spec[1]
    if k == "list":
        return [build_value(s) for s in spec[1]]
    if k == "tuple":
        return tuple(build_value(s) for s in spec[1])
    if k == "dict":
        return {kk: build_value(s) for kk, s in spec[1]}
    if k == "ndarray":
        return np.arange(spec[1], dtype=spec[2]).reshape(spec[3])
    if k == "npscalar":
        return getattr(np, spec[1])(spec[2])
    raise ValueError(k)


def apply(d, op, model_mem=None, model_disk=None):
    """Apply one op to the PersistentDict `d` (and to the two models if given). Returns nothing."""
    kind = op[0]
    if kind == "set":
        v = build_value(op[2])
        d[op[1]] = v
        if model_mem is not None:
            model_mem[op[1]] = build_value(op[2])
            model_disk[op[1]] = build_value(op[2])
    elif kind == "del":
        if op[1] in d:
            del d[op[1]]
        if model_mem is not None:
            model_mem.pop(op[1], None)
            model_disk.pop(op[1], None)
    elif kind == "pop":
        d.pop(op[1], None)
        if model_mem is not None:
            model_mem.pop(op[1], None)
            model_disk.pop(op[1], None)
    elif kind == "popitem":
        if len(d):
            k, _ = d.popitem()
            if model_mem is not None:
                model_mem.pop(k, None)
                model_disk.pop(k, None)
    elif kind == "update":
        items = {k: build_value(s) for k, s in op[1]}
        d.update(items)
        if model_mem is not None:
            for k, s in op[1]:
                model_mem[k] = build_value(s)
                model_disk[k] = build_value(s)
    elif kind == "setdefault":
        d.setdefault(op[1], build_value(op[2]))
        if model_mem is not None and op[1] not in model_mem:
            model_mem[op[1]] = build_value(op[2])
            model_disk[op[1]] = build_value(op[2])
    elif kind == "clear":
        d.clear()
        if model_mem is not None:
            model_mem.clear()
            model_disk.clear()
    elif kind == "flush":
        d.flush()
        if model_mem is not None:
            import copy

            model_disk.clear()
            model_disk.update(copy.deepcopy(model_mem))
    elif kind == "mutate":
        # in-place mutation of a dict/list value: not synced until flush
        if op[1] in d and isinstance(d[op[1]], (dict, list)):
            v = d[op[1]]
            if isinstance(v, dict):
                v["mutated"] = op[2]
            else:
                v.append(op[2])
            if model_mem is not None:
                m = model_mem[op[1]]
                if isinstance(m, dict):
                    m["mutated"] = op[2]
                else:
                    m.append(op[2])
    elif kind == "reload":
        d.reload()
        if model_mem is not None:
            import copy

            model_mem.clear()
            model_mem.update(copy.deepcopy(model_disk))
    else:
        raise ValueError(kind)


if __name__ == "__main__":
    # crash mode: python -m vf.helpers.pdict_ops <dir> <history.json>  -> executes the ops and dies without any finalizer
    from bluesky.utils import PersistentDict

    directory, hist = sys.argv[1], json.load(open(sys.argv[2]))
    d = PersistentDict(directory)
    for op in hist:
        apply(d, op)
    sys.stdout.flush()
    os._exit(0)
