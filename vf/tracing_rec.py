"""A recording OpenTelemetry TracerProvider (the SDK is not installed; only the API is)."""

from __future__ import annotations

from opentelemetry import trace
from opentelemetry.util._decorator import _agnosticcontextmanager

SINK = []


class RecSpan(trace.Span):
    def __init__(self, name):
        self.name = name
        self.attrs = {}
        self.ended = 0
        self.seq = len(SINK)
        SINK.append(self)

    def end(self, end_time=None):
        self.ended += 1
        self.attrs_at_end = dict(self.attrs)

    def get_span_context(self):
        return trace.INVALID_SPAN_CONTEXT

    def set_attributes(self, attributes):
        self.attrs.update(attributes)

    def set_attribute(self, key, value):
        self.attrs[key] = value

    def add_event(self, name, attributes=None, timestamp=None):
        pass

    def add_link(self, context, attributes=None):
        pass

    def update_name(self, name):
        self.name = name

    def is_recording(self):
        return True

    def set_status(self, status, description=None):
        pass

    def record_exception(self, exception, attributes=None, timestamp=None, escaped=False):
        pass


class RecTracer(trace.Tracer):
    def start_span(self, name, context=None, kind=trace.SpanKind.INTERNAL, attributes=None, links=None, start_time=None,
                   record_exception=True, set_status_on_exception=True):
        s = RecSpan(name)
        if attributes:
            s.set_attributes(attributes)
        return s

    @_agnosticcontextmanager
    def start_as_current_span(self, name, context=None, kind=trace.SpanKind.INTERNAL, attributes=None, links=None,
                              start_time=None, record_exception=True, set_status_on_exception=True, end_on_exit=True):
        span = self.start_span(name, attributes=attributes)
        with trace.use_span(span, end_on_exit=end_on_exit, record_exception=False, set_status_on_exception=False):
            yield span


class RecProvider(trace.TracerProvider):
    def get_tracer(self, *args, **kwargs):
        return RecTracer()


_installed = False


def install():
    global _installed
    if not _installed:
        trace.set_tracer_provider(RecProvider())
        _installed = True
    return SINK
