"""Plan corpus for the engine-level sweeps. Every builder returns (plan_generator, devices_dict).

Plans are built against a Harness `h` (devices write their ledger into h.log).  Hand-written plans are
self-instrumented: they report into h.log with ("plan", event, ...) entries.
"""

from __future__ import annotations

import bluesky.plan_stubs as bps
import bluesky.plans as bp
import bluesky.preprocessors as bpp
from bluesky.utils import Msg

from vf.devices import AsyncLocMotor, CfgSig, Det, Flyer, LocMotor, Motor, Sig, StreamDet


def devices(h, faults=None, motor_delay=0.1, det_delay=0.05):
    lg = h.log
    m1 = Motor("m1", lg, faults, delay=motor_delay)
    m2 = Motor("m2", lg, faults, delay=motor_delay)
    det = Det("det", lg, faults, delay=det_delay, motors=[m1, m2])
    det2 = Det("det2", lg, faults, delay=None, motors=[m1])
    sig = Sig("sig", lg, faults)
    sig2 = Sig("sig2", lg, faults)
    fly = Flyer("fly", lg, faults, delay=det_delay)
    lm = LocMotor("lm", lg, faults, delay=motor_delay)
    csig = CfgSig("csig", lg, faults)
    alm = [AsyncLocMotor(f"alm{i}", lg, faults, delay=motor_delay) for i in range(2)]
    kd = {f"kdet{i}": Det(f"kdet{i}", lg, faults, delay=None, motors=[m1]) for i in range(4)}
    return {"m1": m1, "m2": m2, "det": det, "det2": det2, "sig": sig, "fly": fly, "lm": lm, "sig2": sig2, "alm0": alm[0], "alm1": alm[1], "csig": csig, **kd}


def P(h, *what):
    h.log.append(("plan",) + what)


def traced(plan, h, name="top"):
    """Transparent tracing wrapper: logs yielded messages, responses and thrown exceptions."""
    plan = iter(plan) if not hasattr(plan, "send") else plan
    try:
        msg = plan.send(None)
    except StopIteration as s:
        P(h, "return", name, s.value)
        return s.value
    i = 0
    while True:
        try:
            P(h, "yield", name, i, msg)
            resp = yield msg
        except GeneratorExit:
            P(h, "closed", name, i)
            plan.close()
            raise
        except BaseException as e:  # noqa: BLE001
            P(h, "thrown", name, i, e)
            try:
                msg = plan.throw(e)
            except StopIteration as s:
                P(h, "return", name, s.value)
                return s.value
            except BaseException as e2:  # noqa: BLE001
                P(h, "raised", name, e2)
                raise
        else:
            P(h, "recv", name, i, resp)
            try:
                msg = plan.send(resp)
            except StopIteration as s:
                P(h, "return", name, s.value)
                return s.value
            except BaseException as e2:  # noqa: BLE001
                P(h, "raised", name, e2)
                raise
        i += 1


# ---------------------------------------------------------------------------------------------


def p_count(h, d, n=3):
    return bp.count([d["det"]], num=n)


def p_count_mixed(h, d):
    """library count over a triggerable detector and a read-only signal (no trigger method) listed LAST, with a delay
    between the points (so that a status failing late has an unrelated sleep after a checkpoint to land in)"""
    return bp.count([d["det"], d["sig"]], num=3, delay=0.3)


def p_count_mixed_first(h, d):
    return bp.count([d["sig"], d["det"]], num=3, delay=0.3)


def p_scan(h, d, n=3):
    return bp.scan([d["det"]], d["m1"], 0, 2, n)


def p_grid(h, d):
    return bp.grid_scan([d["det"], d["det2"]], d["m1"], 0, 1, 2, d["m2"], 0, 1, 2, snake_axes=True)


def p_list_scan(h, d):
    return bp.list_scan([d["det"]], d["m1"], [0.5, 1.5, 1.0])


def p_rel_scan(h, d):
    d["m1"].position = 5.0
    return bp.rel_scan([d["det"]], d["m1"], -1, 1, 3)


def p_custom(h, d):
    """stage / monitor / bundles / checkpoints / cleanup in a finally."""
    m1, det, sig = d["m1"], d["det"], d["sig"]

    def body():
        yield Msg("stage", det)
        yield Msg("stage", m1)
        yield Msg("open_run", purpose="custom")
        yield Msg("monitor", sig, name="sig_mon")
        for k in range(3):
            yield Msg("checkpoint")
            yield Msg("set", m1, float(k), group="mv")
            yield Msg("wait", None, group="mv")
            yield Msg("trigger", det, group="tr")
            yield Msg("wait", None, group="tr")
            yield Msg("create", name="primary")
            yield Msg("read", det)
            yield Msg("read", m1)
            yield Msg("save")
        yield Msg("unmonitor", sig)
        yield Msg("close_run")
        yield Msg("unstage", m1)
        yield Msg("unstage", det)
        P(h, "body-complete")
        return "custom-done"

    def cleanup():
        P(h, "cleanup-start")
        yield Msg("set", m1, 0.0, group="back")
        yield Msg("wait", None, group="back")
        P(h, "cleanup-end")

    return bpp.finalize_wrapper(body(), cleanup)


def p_custom_mon(h, d):
    """p_custom with the monitored signal updated at fixed virtual times (monitor events interleave the points)."""
    import asyncio

    sig = d["sig"]
    plan = p_custom(h, d)

    def body():
        loop = h.loop
        handles = [loop.call_later(t, sig.put, k + 1) for k, t in enumerate((0.02, 0.07, 0.13, 0.22, 0.31, 0.38, 0.47, 0.61, 0.9))]
        try:
            return (yield from plan)
        finally:
            for hd in handles:
                hd.cancel()

    def scheduled():
        # the timers must be created on the loop thread, at the first message
        yield Msg("null")
        return (yield from body())

    return scheduled()


def p_mon2(h, d):
    """monitor inside a run with long sleeps so that many updates fall in every phase; updates every 0.04 virtual s."""
    sig, m1 = d["sig"], d["m1"]

    def body():
        loop = h.loop
        handles = [loop.call_later(0.013 + 0.04 * k, sig.put, 100 + k) for k in range(40)]
        try:
            yield Msg("sleep", None, 0.1)
            yield Msg("open_run")
            yield Msg("checkpoint")
            yield Msg("sleep", None, 0.1)
            yield Msg("monitor", sig, name="sig_mon")
            for k in range(3):
                yield Msg("checkpoint")
                yield Msg("set", m1, float(k), group="g")
                yield Msg("wait", None, group="g")
                yield Msg("sleep", None, 0.1)
            yield Msg("unmonitor", sig)
            yield Msg("sleep", None, 0.1)
            yield Msg("close_run")
            yield Msg("sleep", None, 0.1)
            P(h, "body-complete")
        finally:
            for hd in handles:
                hd.cancel()

    def scheduled():
        yield Msg("null")
        return (yield from body())

    return scheduled()


def p_mon_closeleft(h, d):
    """two monitored signals still monitored when the run is closed (close_run has to remove them itself)."""
    sig, det = d["sig"], d["det"]
    sig2 = d["sig2"]

    def body():
        yield Msg("open_run")
        yield Msg("monitor", sig, name="sig_mon")
        yield Msg("monitor", sig2, name="sig2_mon")
        yield Msg("checkpoint")
        yield Msg("trigger", det, group="t")
        yield Msg("wait", None, group="t")
        yield Msg("create", name="primary")
        yield Msg("read", det)
        yield Msg("save")
        yield Msg("close_run")
        yield Msg("null")
        P(h, "body-complete")

    return body()


def p_neverclose(h, d):
    det = d["det"]

    def body():
        yield Msg("open_run")
        for _ in range(2):
            yield Msg("checkpoint")
            yield Msg("trigger", det, group="t")
            yield Msg("wait", None, group="t")
            yield Msg("create", name="primary")
            yield Msg("read", det)
            yield Msg("save")
        P(h, "body-complete")
        return "left-open"

    return body()


def p_neverclose2(h, d):
    """two keyed runs left open for the engine to close."""
    def body():
        for k in ("A", "B"):
            yield Msg("open_run", run=k, key=k)
            yield Msg("checkpoint")
            yield Msg("create", name="primary", run=k)
            yield Msg("read", d["kdet0" if k == "A" else "kdet1"], run=k)
            yield Msg("save", run=k)
        yield Msg("sleep", None, 0.05)
        P(h, "body-complete")

    return body()


def p_park(h, d):
    """a run, and a cleanup plan that records a run of its own (another key) while the plan unwinds."""
    det, m1 = d["det"], d["m1"]

    def body():
        yield Msg("open_run", run="scan", key="scan")
        for k in range(2):
            yield Msg("checkpoint")
            yield Msg("set", m1, float(k), group="g")
            yield Msg("wait", None, group="g")
            yield Msg("create", name="primary", run="scan")
            yield Msg("read", det, run="scan")
            yield Msg("save", run="scan")
        yield Msg("close_run", run="scan")
        P(h, "body-complete")

    def cleanup():
        P(h, "cleanup-start")
        yield Msg("open_run", run="park", key="park")
        yield Msg("set", m1, -1.0, group="home")
        yield Msg("wait", None, group="home")
        yield Msg("create", name="primary", run="park")
        yield Msg("read", d["kdet0"], run="park")
        yield Msg("save", run="park")
        yield Msg("close_run", run="park")
        P(h, "cleanup-end")

    return bpp.finalize_wrapper(body(), cleanup)


def p_norun(h, d):
    m1 = d["m1"]

    def body():
        yield Msg("checkpoint")
        yield Msg("set", m1, 1.0, group="g")
        yield Msg("wait", None, group="g")
        yield Msg("sleep", None, 0.5)
        yield Msg("checkpoint")
        yield Msg("set", m1, 2.0, group="g")
        yield Msg("wait", None, group="g")
        P(h, "body-complete")

    return body()


def p_nested(h, d):
    """two runs open at once with run keys, interleaved bundles."""
    det, det2, m1 = d["det"], d["det2"], d["m1"]

    def body():
        yield Msg("open_run", run="A", key="A")
        yield Msg("checkpoint")
        yield Msg("open_run", run="B", key="B")
        for k in range(2):
            yield Msg("checkpoint")
            yield Msg("set", m1, float(k), group="mv")
            yield Msg("wait", None, group="mv")
            yield Msg("create", name="primary", run="A")
            yield Msg("read", det, run="A")
            yield Msg("save", run="A")
            yield Msg("create", name="primary", run="B")
            yield Msg("read", det2, run="B")
            yield Msg("save", run="B")
        yield Msg("close_run", run="A")
        yield Msg("checkpoint")
        yield Msg("create", name="primary", run="B")
        yield Msg("read", det2, run="B")
        yield Msg("save", run="B")
        yield Msg("close_run", run="B")
        P(h, "body-complete")

    return body()


def p_fly(h, d):
    return bp.fly([d["fly"]])


def p_late_wait(h, d):
    """a set whose group is waited for only after later checkpoints (an interruption in between must not lose the status)."""
    det, m1, m2 = d["det"], d["m1"], d["m2"]

    def body():
        yield Msg("open_run")
        yield Msg("checkpoint")
        yield Msg("set", m1, 1.0, group="mv")
        yield Msg("checkpoint")
        yield Msg("sleep", None, 0.02)
        yield Msg("trigger", det, group="t")
        yield Msg("wait", None, group="t")
        yield Msg("create", name="primary")
        yield Msg("read", det)
        yield Msg("save")
        yield Msg("checkpoint")
        yield Msg("sleep", None, 0.01)
        yield Msg("wait", None, group="mv")
        yield Msg("set", m2, 1.0, group="mv2")
        yield Msg("wait", None, group="mv2")
        yield Msg("close_run")

    return body()


def p_locate2(h, d):
    """'locate' in all its shapes: one device, one device unsqueezed, several devices at once; sync and async locate()."""
    lm, a0, a1 = d["lm"], d["alm0"], d["alm1"]

    def body():
        yield Msg("open_run")
        yield Msg("locate", lm)
        yield Msg("locate", a0)
        yield Msg("locate", a0, squeeze=False)
        yield Msg("locate", a0, a1)
        yield Msg("locate", lm, a1, a0)
        yield Msg("null")
        yield Msg("close_run")

    return body()


def p_collect_sd(h, d):
    """two stream-asset detectors collected together several times, checkpoints only every other collect."""
    dets = [StreamDet("sd0", h.log), StreamDet("sd1", h.log)]
    prog = [(2, 3), (1, 1), (3, 2), (0, 2), (2, 2)]

    def body():
        yield Msg("open_run")
        yield Msg("declare_stream", None, *dets, name="main", collect=True)
        yield Msg("checkpoint")
        for k, step in enumerate(prog):
            for dd, inc in zip(dets, step):
                dd.written += inc
            yield Msg("collect", *dets, name="main")
            yield Msg("sleep", None, 0.02)
            if k % 2:
                yield Msg("checkpoint")
        yield Msg("close_run")

    return body()


def p_mon_cfg(h, d):
    """a monitored signal that is configured while it is monitored; updates at fixed virtual times."""
    csig, det, m1 = d["csig"], d["det"], d["m1"]

    def body():
        loop = h.loop
        handles = [loop.call_later(0.03 + 0.05 * k, csig.put, 500 + k) for k in range(14)]
        try:
            yield Msg("open_run")
            yield Msg("monitor", csig, name="csig_mon")
            for k in range(3):
                yield Msg("checkpoint")
                yield Msg("set", m1, float(k), group="g")
                yield Msg("wait", None, group="g")
                if k == 0:
                    yield Msg("configure", csig)
                yield Msg("sleep", None, 0.12)
                yield Msg("create", name="primary")
                yield Msg("read", det)
                yield Msg("save")
            yield Msg("unmonitor", csig)
            yield Msg("close_run")
        finally:
            for hd in handles:
                hd.cancel()

    def scheduled():
        yield Msg("null")       # the timers must be created on the loop thread, at the first message
        return (yield from body())

    return scheduled()


def p_norewind_events(h, d):
    """events saved (with checkpoints) while rewinding is switched off, then rewindable work before the next checkpoint."""
    det, m1 = d["det"], d["m1"]

    def point():
        yield Msg("trigger", det, group="t")
        yield Msg("wait", None, group="t")
        yield Msg("create", name="primary")
        yield Msg("read", det)
        yield Msg("save")

    def body():
        yield Msg("open_run")
        yield Msg("checkpoint")
        yield from point()
        yield Msg("rewindable", None, False)
        for _ in range(2):
            yield Msg("checkpoint")
            yield from point()
        yield Msg("rewindable", None, True)
        yield Msg("set", m1, 1.0, group="g")
        yield Msg("wait", None, group="g")
        yield Msg("sleep", None, 0.1)
        yield Msg("null")
        yield Msg("checkpoint")
        yield from point()
        yield Msg("close_run")

    return body()


def p_cleanup_fails(h, d):
    """the plan's own cleanup raises (a device error in a finally), whatever ended the body."""
    det, m1 = d["det"], d["m1"]

    class LimitSwitch(Exception):
        pass

    def body():
        yield Msg("open_run")
        yield Msg("checkpoint")
        yield Msg("set", m1, 1.0, group="g")
        yield Msg("wait", None, group="g")
        yield Msg("sleep", None, 0.1)
        yield Msg("create", name="primary")
        yield Msg("read", det)
        yield Msg("save")
        yield Msg("sleep", None, 0.05)

    def plan():
        try:
            yield from body()
        finally:
            yield Msg("null", None, "cleanup")
            raise LimitSwitch("bad_motor hit its limit switch")

    return plan()


def p_norewind_point(h, d):
    """every point is taken with rewinding switched off (a non-rewindable detector): checkpoint; rewindable False; point;
    rewindable True; a delay - no checkpoint between the point and the delay."""
    det = d["det"]

    def body():
        yield Msg("open_run")
        for _ in range(3):
            yield Msg("checkpoint")
            yield Msg("rewindable", None, False)
            yield Msg("trigger", det, group="t")
            yield Msg("wait", None, group="t")
            yield Msg("create", name="primary")
            yield Msg("read", det)
            yield Msg("save")
            yield Msg("rewindable", None, True)
            yield Msg("sleep", None, 0.08)
            yield Msg("null")
        yield Msg("close_run")

    return body()


def p_clearcp_cfg(h, d):
    """events, clear_checkpoint, then the stream gets a fresh descriptor (configure) and more events."""
    det = d["det"]

    def point():
        yield Msg("trigger", det, group="t")
        yield Msg("wait", None, group="t")
        yield Msg("create", name="primary")
        yield Msg("read", det)
        yield Msg("save")

    def body():
        yield Msg("open_run")
        yield Msg("checkpoint")
        yield from point()
        yield from point()
        yield Msg("clear_checkpoint")
        yield Msg("configure", det)
        yield from point()
        yield from point()
        yield Msg("close_run")

    return body()


def p_late_wait2(h, d):
    """a motion started BEFORE the run is opened and waited for inside it."""
    det, m1 = d["det"], d["m1"]

    def body():
        yield Msg("checkpoint")
        yield Msg("set", m1, 1.0, group="pre")
        yield Msg("open_run")
        yield Msg("checkpoint")
        yield Msg("trigger", det, group="t")
        yield Msg("wait", None, group="t")
        yield Msg("wait", None, group="pre")
        yield Msg("create", name="primary")
        yield Msg("read", det)
        yield Msg("save")
        yield Msg("close_run")

    return body()


def p_clearcp(h, d):
    """a non-resumable section between clear_checkpoint and the next checkpoint, with cleanup."""
    det, m1 = d["det"], d["m1"]

    def body():
        yield Msg("open_run")
        yield Msg("checkpoint")
        yield Msg("trigger", det, group="t")
        yield Msg("wait", None, group="t")
        yield Msg("create", name="primary")
        yield Msg("read", det)
        yield Msg("save")
        yield Msg("clear_checkpoint")
        P(h, "nonresumable-start")
        yield Msg("set", m1, 1.0, group="g")
        yield Msg("wait", None, group="g")
        yield Msg("sleep", None, 0.2)
        yield Msg("create", name="primary")
        yield Msg("read", det)
        yield Msg("save")
        P(h, "nonresumable-end")
        yield Msg("close_run")
        P(h, "body-complete")

    def cleanup():
        P(h, "cleanup-start")
        yield Msg("null")
        P(h, "cleanup-end")

    return bpp.finalize_wrapper(body(), cleanup)


def p_two_runs(h, d):
    """two consecutive runs in one call, work after close_run."""
    det = d["det"]

    def one(i):
        yield Msg("open_run", idx=i)
        yield Msg("checkpoint")
        yield Msg("trigger", det, group="t")
        yield Msg("wait", None, group="t")
        yield Msg("create", name="primary")
        yield Msg("read", det)
        yield Msg("save")
        yield Msg("close_run")

    def body():
        yield from one(0)
        yield Msg("null")
        yield from one(1)
        yield Msg("null")
        P(h, "body-complete")

    return body()


def p_run_wrapper_fail(h, d):
    """run_wrapper plan whose body raises after one point (plan error path)."""
    det = d["det"]

    def inner():
        yield Msg("checkpoint")
        yield Msg("trigger", det, group="t")
        yield Msg("wait", None, group="t")
        yield Msg("create", name="primary")
        yield Msg("read", det)
        yield Msg("save")
        raise ValueError("plan-error")

    return bpp.run_wrapper(inner(), md={})


def p_mixed(h, d):
    """checkpoints, a non-rewindable region, stage/unstage and (un)subscribe mid-run, monitor, work after close_run."""
    m1, det, det2, sig = d["m1"], d["det"], d["det2"], d["sig"]

    def cb(name, doc):
        pass

    def body():
        yield Msg("open_run")
        yield Msg("checkpoint")
        yield Msg("set", m1, 1.0, group="a")
        yield Msg("wait", None, group="a")
        yield Msg("stage", det2)
        yield Msg("null")
        yield Msg("create", name="primary")
        yield Msg("read", det2)
        yield Msg("save")
        tok = yield Msg("subscribe", None, cb, "all")
        yield Msg("null")
        yield Msg("rewindable", None, False)
        yield Msg("set", m1, 2.0, group="b")
        yield Msg("wait", None, group="b")
        yield Msg("rewindable", None, True)
        yield Msg("null")
        yield Msg("monitor", sig, name="sig_mon")
        yield Msg("trigger", det, group="t")
        yield Msg("wait", None, group="t")
        yield Msg("create", name="primary")
        yield Msg("read", det2)
        yield Msg("save")
        yield Msg("unsubscribe", None, tok)
        yield Msg("sleep", None, 0.1)
        yield Msg("null")
        yield Msg("unstage", d["m2"])      # a device this plan never staged: still an implicit checkpoint
        yield Msg("null")
        yield Msg("sleep", None, 0.05)
        yield Msg("unmonitor", sig)
        yield Msg("checkpoint")
        yield Msg("null")
        yield Msg("close_run")
        yield Msg("null")
        yield Msg("set", m1, 0.0, group="c")
        yield Msg("wait", None, group="c")
        yield Msg("unstage", det2)
        yield Msg("null")
        P(h, "body-complete")

    return body()


def make_spaced(spacing, n_blocks=3, tail=0):
    """checkpoint every `spacing` messages; `tail` extra messages after the last checkpoint."""

    def builder(h, d):
        m1, det = d["m1"], d["det"]

        def body():
            yield Msg("open_run")
            k = 0
            for b in range(n_blocks):
                yield Msg("checkpoint")
                for j in range(spacing - 1):
                    k += 1
                    if j % 3 == 0:
                        yield Msg("set", m1, float(k), group="g")
                    elif j % 3 == 1:
                        yield Msg("wait", None, group="g")
                    else:
                        yield Msg("null")
            for j in range(tail):
                yield Msg("sleep", None, 0.05) if j % 2 else Msg("null")
            yield Msg("close_run")
            P(h, "body-complete")

        return body()

    return builder


def make_clearcp(pos, cleanup_shape="finalize", inplan_pause_after=None, toggle_rewindable=False, second_run=False,
                 checkpoints_inside=False):
    """clear_checkpoint after `pos` points; the rest of the run is non-resumable; cleanup in a finally.
    inplan_pause_after=k: the plan itself asks for a pause (Msg('pause')) after the k-th message of the section."""

    def builder(h, d):
        det, m1 = d["det"], d["m1"]

        def point(k):
            yield Msg("set", m1, float(k), group="g")
            yield Msg("wait", None, group="g")
            yield Msg("trigger", det, group="t")
            yield Msg("wait", None, group="t")
            yield Msg("create", name="primary")
            yield Msg("read", det)
            yield Msg("save")

        def body():
            yield Msg("stage", det)
            yield Msg("open_run")
            for k in range(pos):
                yield Msg("checkpoint")
                yield from point(k)
            yield Msg("clear_checkpoint")
            P(h, "nonresumable-start")

            def section():
                for k in range(pos, pos + 2):
                    if checkpoints_inside:
                        # a 'checkpoint' after clear_checkpoint does not make the plan resumable again; it is where a
                        # deferred pause is served (and, the plan not being resumable, turned into an abort)
                        yield Msg("checkpoint")
                    if toggle_rewindable and k == pos:
                        # switching rewinding off and on again does not bring the cleared checkpoint back
                        yield Msg("rewindable", None, False)
                        yield Msg("sleep", None, 0.02)
                        yield Msg("rewindable", None, True)
                    yield from point(k)
                    yield Msg("sleep", None, 0.05)
                if second_run:
                    # closing the run (and opening another one) does not bring the cleared checkpoint back either
                    yield Msg("close_run")
                    yield Msg("sleep", None, 0.03)
                    yield Msg("open_run")
                    yield from point(pos + 2)
                    yield Msg("sleep", None, 0.03)

            for i, m in enumerate(section()):
                if inplan_pause_after == i:
                    P(h, "inplan-pause")
                    yield Msg("pause")
                yield m
            P(h, "nonresumable-end")
            yield Msg("close_run")
            yield Msg("unstage", det)
            P(h, "body-complete")

        def cleanup():
            P(h, "cleanup-start")
            yield Msg("set", m1, -1.0, group="home")
            yield Msg("wait", None, group="home")
            P(h, "cleanup-end")

        if cleanup_shape == "finalize":
            return bpp.finalize_wrapper(body(), cleanup)

        def tryfinally():
            try:
                yield from body()
            finally:
                P(h, "cleanup-start")
                P(h, "cleanup-end")

        return tryfinally()

    return builder


def p_responses(h, d):
    """one yield of (almost) every command whose response matters; the plan's return value is its own checksum."""
    m1, lm, det, det2, fly, sig = d["m1"], d["lm"], d["det"], d["det2"], d["fly"], d["sig"]

    def cb(name, doc):
        pass

    def body():
        yield Msg("RE_class")
        yield Msg("rewindable", None, None)
        yield Msg("stage", det)
        yield Msg("open_run", tag="resp")
        yield Msg("null", None, "droppable")      # (a message filter may remove these: the plan then gets None)
        yield Msg("checkpoint")
        yield Msg("locate", lm)
        yield Msg("set", lm, 1.5, group="a")
        yield Msg("null", None, "droppable")
        yield Msg("set", m1, 0.5, group="a")
        yield Msg("wait", None, group="a")
        yield Msg("null", None, "droppable")
        yield Msg("locate", lm)
        tok = yield Msg("subscribe", None, cb, "event")
        yield Msg("trigger", det, group="t")
        yield Msg("wait", None, group="t")
        yield Msg("create", name="primary")
        yield Msg("read", det)
        yield Msg("null", None, "droppable")
        yield Msg("read", lm)
        yield Msg("save")
        yield Msg("checkpoint")
        yield Msg("configure", det)
        yield Msg("create", name="primary")
        yield Msg("read", det)
        yield Msg("read", lm)
        yield Msg("save")
        yield Msg("unsubscribe", None, tok)
        yield Msg("kickoff", fly, group="k")
        yield Msg("wait", None, group="k")
        yield Msg("complete", fly, group="c")
        yield Msg("wait", None, group="c")
        yield Msg("collect", fly, return_payload=True)
        yield Msg("sleep", None, 0.05)
        yield Msg("null")
        yield Msg("close_run")
        yield Msg("unstage", det)
        P(h, "body-complete")
        return ("responses-done", 42)

    return body()


def make_keys_plan(seed, nkeys=3, dup=False, use_wrapper=False, sparse=False, run_keys=None, outer_key=None):
    """nested / interleaved runs with run keys K0..Kn-1; run Ki only ever reads detector kdet<i>."""
    import random

    def builder(h, d):
        rng = random.Random(seed)
        m1 = d["m1"]
        scripts = []
        for k in range(nkeys):
            sc = [("open", k)]
            for _ in range(rng.randint(1, 3)):
                sc.append(("point", k))
            sc.append(("close", k))
            scripts.append(sc)
        # random interleaving preserving each script's order
        order = []
        idx = [0] * nkeys
        while any(idx[k] < len(scripts[k]) for k in range(nkeys)):
            k = rng.choice([k for k in range(nkeys) if idx[k] < len(scripts[k])])
            order.append(scripts[k][idx[k]])
            idx[k] += 1

        def one(step, k):
            label = f"K{k}"
            key = run_keys[k] if run_keys is not None else label      # (run keys may be any hashable, also falsy ones)
            if step == "open":
                yield Msg("open_run", run=key, key=label)
                if not sparse:
                    yield Msg("checkpoint")
                else:
                    yield Msg("sleep", None, 0.02)
            elif step == "close":
                yield Msg("close_run", run=key)
                if not sparse:
                    yield Msg("checkpoint")
                else:
                    # work after a close_run with no explicit checkpoint: only the implicit one protects the other runs
                    yield Msg("null")
                    yield Msg("sleep", None, 0.05)
            else:
                yield Msg("checkpoint")
                yield Msg("set", m1, float(rng.randint(0, 5)), group="mv")
                yield Msg("wait", None, group="mv")
                yield Msg("create", name="primary", run=key)
                yield Msg("read", d[f"kdet{k}"], run=key)
                yield Msg("save", run=key)

        def body():
            opened = set()
            for pos, (step, k) in enumerate(order):
                if use_wrapper and step == "point":
                    yield from bpp.set_run_key_wrapper(_strip_key(one(step, k)), run_keys[k] if run_keys is not None else f"K{k}")
                else:
                    yield from one(step, k)
                if step == "open":
                    opened.add(k)
                elif step == "close":
                    opened.discard(k)
                if dup and opened and pos == len(order) // 2:
                    kk = sorted(opened)[0]
                    try:
                        yield Msg("open_run", run=f"K{kk}", key=f"K{kk}", dup=True)
                        P(h, "dup-open-accepted", kk)
                    except Exception as e:  # noqa: BLE001
                        from bluesky.utils import FailedPause, RunEngineControlException

                        if isinstance(e, (RunEngineControlException, FailedPause)):
                            raise  # an abort/stop thrown at this yield is not ours to swallow
                        P(h, "dup-open-rejected", kk, e)
            P(h, "body-complete")

        if outer_key is not None:
            # an enclosing wrapper with another key: it may only fill in messages that carry NO key
            return bpp.set_run_key_wrapper(body(), outer_key)
        return body()

    return builder


def _strip_key(plan):
    """re-emit messages without their run key (for set_run_key_wrapper to fill in)."""
    return bpp.msg_mutator(plan, lambda m: m._replace(run=None))


CORPUS = {
    "count": p_count,
    "count_mixed": p_count_mixed,
    "count_mixed_first": p_count_mixed_first,
    "scan": p_scan,
    "grid": p_grid,
    "list_scan": p_list_scan,
    "rel_scan": p_rel_scan,
    "custom": p_custom,
    "custom_mon": p_custom_mon,
    "mixed": p_mixed,
    "mon2": p_mon2,
    "mon_closeleft": p_mon_closeleft,
    "responses": p_responses,
    "neverclose": p_neverclose,
    "neverclose2": p_neverclose2,
    "park": p_park,
    "norun": p_norun,
    "nested": p_nested,
    "fly": p_fly,
    "clearcp": p_clearcp,
    "cleanup_fails": p_cleanup_fails,
    "norewind_point": p_norewind_point,
    "clearcp_cfg": p_clearcp_cfg,
    "late_wait2": p_late_wait2,
    "mon_cfg": p_mon_cfg,
    "norewind_events": p_norewind_events,
    "collect_sd": p_collect_sd,
    "locate2": p_locate2,
    "late_wait": p_late_wait,
    "two_runs": p_two_runs,
    "rw_fail": p_run_wrapper_fail,
    "keys_a": make_keys_plan(1, 2),
    "keys_b": make_keys_plan(2, 3),
    "keys_c": make_keys_plan(3, 4),
    "keys_dup": make_keys_plan(4, 3, dup=True),
    "keys_wrap": make_keys_plan(5, 3, use_wrapper=True),
    "keys_dup2": make_keys_plan(6, 2, dup=True),
    "keys_sparse": make_keys_plan(7, 3, sparse=True),
    "keys_falsy": make_keys_plan(9, 3, use_wrapper=True, run_keys=[0, "", "K2"], outer_key="OUT"),
    "keys_falsy2": make_keys_plan(10, 2, run_keys=[(), False], outer_key="OUT"),
    "keys_sparse2": make_keys_plan(8, 2, sparse=True),
    "clearcp0": make_clearcp(0),
    "clearcp1": make_clearcp(1),
    "clearcp2": make_clearcp(2, "tryfinally"),
    "clearcp_rw": make_clearcp(1, "finalize", toggle_rewindable=True),
    "clearcp_cp": make_clearcp(1, "finalize", checkpoints_inside=True),
    "clearcp_2runs": make_clearcp(1, "tryfinally", second_run=True),
    **{f"clearcp_ip{pos}_{k}": make_clearcp(pos, "finalize" if (pos + k) % 2 == 0 else "tryfinally", inplan_pause_after=k)
       for pos in (0, 1, 2) for k in range(0, 16)},
    "spaced1": make_spaced(1, 4),
    "spaced2": make_spaced(2, 4),
    "spaced3": make_spaced(3, 3),
    "spaced5": make_spaced(5, 3),
    "spaced8": make_spaced(8, 2),
    "spaced_tail": make_spaced(3, 2, tail=6),
}


# ---- named wrappers (JSON-able by name, for replay files) ------------------------------------------


def w_ignore(plan, h, d):
    return traced(plan, h)


def w_handle(plan, h, d):
    def outer():
        try:
            return (yield from traced(plan, h))
        except Exception as e:  # noqa: BLE001
            P(h, "handled", e)
            yield Msg("null", None, "recovered")
            return "recovered"

    return outer()


def w_transform(plan, h, d):
    def outer():
        try:
            return (yield from traced(plan, h))
        except Exception as e:  # noqa: BLE001
            P(h, "transformed", e)
            raise KeyError("transformed") from e

    return outer()


WRAPS = {"traced": w_ignore, "traced-handle": w_handle, "traced-transform": w_transform}
