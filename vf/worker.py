"""Worker: runs a shard of cases of one check module and writes an aggregate."""

from __future__ import annotations

import importlib
import json
import os
import sys
import traceback


def R(v, key="", nontrivial=True, sig=None, detail=None, witness=None, counters=None, sample=None, state=None, case=None):
    """Build one result record. v in held|violated|inconclusive|skip."""
    return {"v": v, "key": key, "nontrivial": nontrivial, "sig": sig, "detail": detail, "witness": witness,
            "counters": counters or {}, "sample": sample, "state": state, **({"case": case} if case is not None else {})}


def main():
    prop, inp, out = sys.argv[1:4]
    with open(inp) as f:
        job = json.load(f)
    real_stdout = sys.stdout
    sys.stdout = open(os.devnull, "w")
    mod = importlib.import_module(f"vf.checks.{prop}")
    agg = {"evaluations": 0, "held": 0, "violated": 0, "inconclusive": 0, "skipped": 0, "keys": set(), "states": set(),
           "counters": {}, "samples": [], "violations": [], "inconclusive_reasons": {}}
    per_sig = {}
    if hasattr(mod, "worker_init"):
        mod.worker_init(job["tier"], job["seed"])
    for case in job["cases"]:
        try:
            results = mod.run_case(case)
        except BaseException as e:  # noqa: BLE001
            if isinstance(e, KeyboardInterrupt):
                raise
            tb = traceback.format_exception(e)
            results = [R("inconclusive", detail="harness-error: " + tb[-1].strip()[:100] + " @ " +
                         (tb[-2].strip().splitlines()[0][-60:] if len(tb) > 1 else ""))]
            sys.stderr.write("".join(tb))
        for r in results:
            agg["evaluations"] += 1
            v = r["v"]
            if v == "held":
                agg["held"] += 1
            elif v == "violated":
                agg["violated"] += 1
                n = per_sig.get(r["sig"], 0)
                per_sig[r["sig"]] = n + 1
                if n < 3:
                    agg["violations"].append({"sig": r["sig"], "detail": r.get("detail"), "case": r.get("case", case),
                                              "witness": r.get("witness")})
                else:
                    # keep the count without the payload
                    agg["violations"].append({"sig": r["sig"], "detail": None, "case": r.get("case", case),
                                              "witness": None})
            elif v == "inconclusive":
                agg["inconclusive"] += 1
                reason = (r.get("detail") or "unspecified")[:160]
                agg["inconclusive_reasons"][reason] = agg["inconclusive_reasons"].get(reason, 0) + 1
            else:
                agg["skipped"] += 1
            if v in ("held", "violated") and r.get("nontrivial", True) and r.get("key"):
                agg["keys"].add(r["key"])
            if r.get("state"):
                agg["states"].add(r["state"])
            for k, n in (r.get("counters") or {}).items():
                agg["counters"][k] = agg["counters"].get(k, 0) + n
            if r.get("sample") is not None and len(agg["samples"]) < 6:
                agg["samples"].append(r["sample"])
    if hasattr(mod, "worker_fini"):
        extra = mod.worker_fini()
        for k, n in (extra or {}).items():
            agg["counters"][k] = agg["counters"].get(k, 0) + n
    agg["keys"] = sorted(agg["keys"])
    agg["states"] = sorted(agg["states"])
    with open(out + ".tmp", "w") as f:
        json.dump(agg, f, default=str)
    os.replace(out + ".tmp", out)
    sys.stdout = real_stdout


if __name__ == "__main__":
    main()
