#!/bin/sh
# Offline setup: put icontract/deal beside the repository's interpreter (git-ignored .deps).
set -e
cd "$(dirname "$0")"
if [ ! -d .deps/icontract ]; then
  /venv/bin/pip install --quiet --no-index --find-links /opt/veriftools/wheels --target .deps icontract deal >/dev/null 2>&1 || \
  echo "setup: icontract/deal not installed (checks that need them fall back to plain oracles)"
fi
mkdir -p evidence replays
/venv/bin/python -c "import bluesky, sys; sys.path.insert(0,'.deps'); import icontract; print('setup ok', bluesky.__file__)"
